(* UpdateFile1.v — C06 at the level of a whole record list (no text layer), part 1:
   the list of records the file-level updater writes ([upd], extracted from [update_loop] with
   format_only = false), the lemma linking it to [update_loop], and the facts about ONE
   record that the file-level induction of UpdateFile2.v needs:
     - what [apply_record] returns is either "nothing" (record not judged, skipped, or the
       substitution panicked) or [apply cfg r a] for one answer [a], and the events, the state
       and the world it leaves do not depend on the expectation of the record;
     - a record whose first attempt passes is run by [run_async] exactly like one application
       (whatever its retry clause, provided the clause allows at least one attempt). *)
From SLT Require Import TextProofs JudgeSpec JudgeProofs Runner RetryProofs RunnerProofs
                        Update UpdateSpec UpdateProofs.
Open Scope N_scope.

(* ------------------------------------------------------------------ record kinds *)
(* the four ways the driver treats a record *)
Inductive rkind := KBegin | KEnd | KHalt | KOther.

Definition rkind_of (r : record) : rkind :=
  match r with
  | RBeginInclude _ => KBegin
  | REndInclude _ => KEnd
  | RHalt _ => KHalt
  | _ => KOther
  end.

Lemma rkind_reread r : rkind_of (reread r) = rkind_of r.
Proof. destruct r; reflexivity. Qed.

Lemma reread_idem r : reread (reread r) = reread r.
Proof. destruct r; cbn [reread]; try reflexivity. destruct stdout; cbn [option_map]; [|reflexivity]. now rewrite trim_idem. Qed.

Lemma rkind_other_not_halt r : rkind_of r = KOther -> not_halt r.
Proof. intros H l ->. discriminate. Qed.

(* ------------------------------------------------------------------ the written records *)
Section Upd.
  Variable re : str -> str -> bool.
  Variable sep : str.
  Variable strict : bool.
  Variable substitute : bool -> list (str * str) -> str -> subres.
  Variable sc : script.

  Notation apply_record := (apply_record substitute sc).
  Notation update_record := (update_record re sep strict).

  (* result of the update of a record list: the records written (all files, in the order of
     the list, include markers kept so that the list can be run again), the events, the
     known-finding flags, and the output of every record (ONothing when it was not executed) *)
  Definition ures4 := (list record * list event * list N * list routput)%type.

  Definition cons_res (r : record) (ev : list event) (kn : list N) (o : routput) (x : option ures4)
    : option ures4 :=
    match x with
    | Some (rs, ev2, kn2, os) => Some (r :: rs, ev ++ ev2, kn ++ kn2, o :: os)
    | None => None
    end.

  (* [update_loop] with format_only = false; of the stack of open files only the depth matters
     here, and [halt] is the one halt flag of the whole update.  None where [update_loop] panics
     because no file is open (unbalanced include markers).  The panics of the text layer (a
     record that has no display, the trimmer) are not modelled: the linking lemma below is
     about the runs of [update_loop] that end in UOk. *)
  Fixpoint upd (rs : list record) (depth : nat) (halt : bool) (st : rstate) (w : world) : option ures4 :=
    match rs with
    | [] => match depth with O => None | S _ => Some ([], [], [], []) end
    | r :: rest =>
        match depth with
        | O => None
        | S below =>
            match rkind_of r with
            | KBegin => cons_res r [] [] ONothing (upd rest (S depth) halt st w)
            | KEnd => cons_res r [] [] ONothing (upd rest below halt st w)
            | KHalt => cons_res r [] [] ONothing (upd rest depth true st w)
            | KOther =>
                if halt then cons_res r [] [] ONothing (upd rest depth true st w)
                else
                  let '(e1, st1, w1, o) := apply_record st w r in
                  let r' := match update_record r o with Some x => x | None => r end in
                  cons_res r' e1 (known_class sep (cfg st1) r o) o (upd rest depth false st1 w1)
            end
        end
    end.

  Definition updated_records (rs : list record) (st : rstate) (w : world) : list record :=
    match upd rs 1 false st w with Some (rs', _, _, _) => rs' | None => [] end.
  Definition updated_events (rs : list record) (st : rstate) (w : world) : list event :=
    match upd rs 1 false st w with Some (_, ev, _, _) => ev | None => [] end.
  Definition updated_known (rs : list record) (st : rstate) (w : world) : list N :=
    match upd rs 1 false st w with Some (_, _, kn, _) => kn | None => [] end.
  Definition updated_outputs (rs : list record) (st : rstate) (w : world) : list routput :=
    match upd rs 1 false st w with Some (_, _, _, os) => os | None => [] end.

  Lemma cons_res_some r ev kn o x res :
    cons_res r ev kn o x = Some res ->
    exists rs ev2 kn2 os, x = Some (rs, ev2, kn2, os) /\ res = (r :: rs, ev ++ ev2, kn ++ kn2, o :: os).
  Proof.
    destruct x as [[[[rs ev2] kn2] os]|]; cbn [cons_res]; intros H; [|discriminate].
    inversion H; subst. eexists _, _, _, _. split; reflexivity.
  Qed.

  (* ---- link with update_loop *)
  Theorem update_loop_upd : forall rs stack halt st w done ev0 kn0 written ev kn,
    update_loop re sep strict substitute sc false rs stack halt st w done ev0 kn0 = UOk written ev kn ->
    exists rs' ev' kn' outs,
      upd rs (length stack) halt st w = Some (rs', ev', kn', outs) /\
      ev = ev0 ++ ev' /\ kn = kn0 ++ kn'.
  Proof.
    induction rs as [|r rest IH]; intros stack halt st w done ev0 kn0 written ev kn H.
    - cbn [update_loop] in H. destruct stack as [|it below]; [discriminate|].
      destruct (close_item it); [|discriminate]. inversion H; subst.
      cbn [length upd]. eexists _, _, _, _. split; [reflexivity|]. now rewrite !app_nil_r.
    - destruct stack as [|it below]; [destruct r; discriminate|].
      cbn [length]. cbn [upd].
      assert (Hcopy :
                 match write_rec it r with
                 | Some it' => update_loop re sep strict substitute sc false rest (it' :: below) true st w done ev0 kn0
                 | None => UPanic done ev0 (map it_file (it :: below))
                 end = UOk written ev kn ->
                 exists rs' ev' kn' outs,
                   cons_res r [] [] ONothing (upd rest (S (length below)) true st w) = Some (rs', ev', kn', outs) /\
                   ev = ev0 ++ ev' /\ kn = kn0 ++ kn').
      { intros Hc. destruct (write_rec it r) as [it'|] eqn:W; [|discriminate].
        apply IH in Hc. destruct Hc as (rs' & ev' & kn' & outs & U & -> & ->).
        cbn [length] in U. rewrite U. cbn [cons_res].
        eexists _, _, _, _. split; [reflexivity|]. split; reflexivity. }
      assert (Hexec :
                 (let '(e1, st1, w1, o) := apply_record st w r in
                  let r' := match update_record r o with Some x => x | None => r end in
                  match write_rec it r' with
                  | Some it' => update_loop re sep strict substitute sc false rest (it' :: below) false st1 w1 done (ev0 ++ e1) (kn0 ++ known_class sep (cfg st1) r o)
                  | None => UPanic done (ev0 ++ e1) (map it_file (it :: below))
                  end) = UOk written ev kn ->
                 exists rs' ev' kn' outs,
                   (let '(e1, st1, w1, o) := apply_record st w r in
                    let r' := match update_record r o with Some x => x | None => r end in
                    cons_res r' e1 (known_class sep (cfg st1) r o) o (upd rest (S (length below)) false st1 w1))
                   = Some (rs', ev', kn', outs) /\
                   ev = ev0 ++ ev' /\ kn = kn0 ++ kn').
      { intros Hc. destruct (apply_record st w r) as [[[e1 st1] w1] o]. cbv zeta in Hc |- *.
        set (r' := match update_record r o with Some x => x | None => r end) in *.
        destruct (write_rec it r') as [it'|] eqn:W; [|discriminate Hc].
        apply IH in Hc. destruct Hc as (rs' & ev' & kn' & outs & U & -> & ->).
        cbn [length] in U. rewrite U. cbn [cons_res].
        eexists _, _, _, _. split; [reflexivity|]. now rewrite !app_assoc. }
      destruct r; cbn [update_loop] in H; cbn [rkind_of];
        try (destruct halt; [apply Hcopy; exact H | apply Hexec; exact H]).
      + (* halt *)
        destruct halt; apply Hcopy; exact H.
      + (* begin include *)
        apply IH in H. destruct H as (rs' & ev' & kn' & outs & U & -> & ->).
        cbn [length] in U. rewrite U. cbn [cons_res].
        eexists _, _, _, _. split; [reflexivity|]. split; reflexivity.
      + (* end include *)
        destruct (close_item it); [|discriminate].
        apply IH in H. destruct H as (rs' & ev' & kn' & outs & U & -> & ->).
        rewrite U. cbn [cons_res].
        eexists _, _, _, _. split; [reflexivity|]. split; reflexivity.
  Qed.
End Upd.

(* ------------------------------------------------------------------ facts about one record *)
(* no system command failed (exit status, spawn error, or substitution error in the command) *)
Definition cmd_ok (o : routput) : Prop :=
  match o with OSystem _ true => False | _ => True end.

(* a retry clause allows at least one attempt (the parser rejects `retry 0`: Parser.parse_retry) *)
Definition retry_ok (r : record) : Prop :=
  match record_retry r with Some rt => attempts rt <> 0 | None => True end.

Lemma sbe_refl_judged r a : judged r a -> same_but_expectation r r.
Proof.
  destruct r; destruct a; cbn [judged]; try contradiction; intros _; cbn [same_but_expectation];
    repeat split; try reflexivity.
  destruct e; [split; reflexivity|exact I].
Qed.

Lemma sbe_reread r r' : same_but_expectation r r' -> same_but_expectation r (reread r').
Proof. destruct r, r'; cbn [same_but_expectation reread]; auto. Qed.

Lemma sbe_retry r r' : same_but_expectation r r' -> record_retry r' = record_retry r.
Proof.
  destruct r, r'; cbn [same_but_expectation record_retry]; try contradiction.
  - intros (_ & _ & _ & _ & ->). reflexivity.
  - destruct e0; try contradiction. intros (_ & _ & _ & _ & ->). reflexivity.
  - intros (_ & _ & _ & _ & -> & _). reflexivity.
  - intros (_ & _ & _ & ->). reflexivity.
Qed.

Lemma sbe_written_reread a b :
  same_but_expectation a b -> written_expectation_eq a b -> reread b = reread a.
Proof.
  destruct a, b; cbn [same_but_expectation written_expectation_eq reread]; try contradiction.
  - intros (-> & -> & -> & -> & ->) ->. reflexivity.
  - intros (-> & -> & -> & -> & -> & _) ->. reflexivity.
  - intros (-> & -> & -> & ->) ->. reflexivity.
Qed.

Lemma apply_not_nothing cfg r a : judged r a -> apply cfg r a <> ONothing.
Proof.
  destruct r; destruct a as [d|s]; cbn [judged]; try contradiction; intros _; cbn [apply].
  - destruct d; discriminate.
  - destruct d; discriminate.
  - destruct s as [[|] out|]; discriminate.
Qed.

Lemma cmd_ok_answer cfg r a :
  judged r a -> cmd_ok (apply cfg r a) ->
  (forall ok out, a = ASys (SysExit ok out) -> ok = true) /\ a <> ASys SysSpawnErr.
Proof.
  destruct r; destruct a as [d|s]; cbn [judged]; try contradiction; intros _; cbn [apply].
  - intros _. split; [intros ok out H|intros H]; discriminate.
  - intros _. split; [intros ok out H|intros H]; discriminate.
  - destruct s as [[|] out|]; cbn [apply_system cmd_ok]; try contradiction.
    intros _. split; [intros ok out' H; inversion H; reflexivity|discriminate].
Qed.

Lemma answer_cmd_ok cfg r a :
  (forall ok out, a = ASys (SysExit ok out) -> ok = true) -> a <> ASys SysSpawnErr ->
  cmd_ok (apply cfg r a).
Proof.
  intros Hok Hsp. destruct r; destruct a as [d|s]; cbn [apply]; try exact I.
  - destruct d; exact I.
  - destruct d; exact I.
  - destruct s as [ok out|]; [|congruence]. rewrite (Hok ok out eq_refl). exact I.
Qed.

Section Rec.
  Variable re : str -> str -> bool.
  Variable sep : str.
  Variable substitute : bool -> list (str * str) -> str -> subres.
  Variable sc : script.

  Notation apply_record := (apply_record substitute sc).

  (* what apply_record returns, and that everything but the output is independent of the
     expectation.  A substitution error or a failed connect is the answer [DErr message]
     (resp. a command that could not be spawned) as far as the output is concerned. *)
  Lemma apply_record_cases st w r ev st1 w1 o :
    apply_record st w r = (ev, st1, w1, o) ->
    (o = ONothing /\ apply_record st w (reread r) = (ev, st1, w1, ONothing)) \/
    (exists a, judged r a /\ o = apply (cfg st1) r a /\
       forall r2, same_but_expectation r r2 ->
                  apply_record st w r2 = (ev, st1, w1, apply (cfg st1) r2 a)) \/
    (* a background `system` command (ends in '&'): spawned and not waited for; the output is
       "no stdout, no error" whatever the expectation of the record *)
    (exists l cs cmd ex rt, r = RSystem l cs cmd ex rt /\ o = OSystem None false /\
       forall ex2, apply_record st w (RSystem l cs cmd ex2 rt) = (ev, st1, w1, OSystem None false)).
  Proof.
    intros H. destruct r; cbn [Runner.apply_record] in H;
      try (left; cbn [reread Runner.apply_record]; inversion H; subst; split; reflexivity).
    - (* statement *)
      destruct (may_substitute substitute st true sql) as [sql'|m|] eqn:M.
      + destruct (get_conn sc st w c) as [[[ev1 st2] w2] [id|]] eqn:G.
        * destruct (should_skip (labels st2) (engine sc) conds) eqn:S.
          -- left. cbn [reread Runner.apply_record]. rewrite M, G, S. inversion H; subst. split; reflexivity.
          -- destruct (db_request sc w2 id) as [d w3] eqn:D. inversion H; subst. right; left.
             exists (ADb d). split; [exact I|]. split; [reflexivity|].
             intros r2 Hs. destruct r2; cbn [same_but_expectation] in Hs; try contradiction.
             destruct Hs as (<- & <- & <- & <- & <-).
             cbn [Runner.apply_record apply]. rewrite M, G, S, D. reflexivity.
        * inversion H; subst. right; left.
          exists (ADb (DErr (connect_failed_msg (makes w)))). split; [exact I|]. split; [reflexivity|].
          intros r2 Hs. destruct r2; cbn [same_but_expectation] in Hs; try contradiction.
          destruct Hs as (<- & <- & <- & <- & <-).
          cbn [Runner.apply_record apply apply_stmt]. rewrite M, G. reflexivity.
      + inversion H; subst. right; left.
        exists (ADb (DErr m)). split; [exact I|]. split; [reflexivity|].
        intros r2 Hs. destruct r2; cbn [same_but_expectation] in Hs; try contradiction.
        destruct Hs as (<- & <- & <- & <- & <-).
        cbn [Runner.apply_record apply apply_stmt]. rewrite M. reflexivity.
      + left. cbn [reread Runner.apply_record]. rewrite M. inversion H; subst. split; reflexivity.
    - (* query *)
      destruct (may_substitute substitute st true sql) as [sql'|m|] eqn:M.
      + destruct (get_conn sc st w c) as [[[ev1 st2] w2] [id|]] eqn:G.
        * destruct (should_skip (labels st2) (engine sc) conds) eqn:S.
          -- left. cbn [reread Runner.apply_record]. rewrite M, G, S. inversion H; subst. split; reflexivity.
          -- destruct (db_request sc w2 id) as [d w3] eqn:D. inversion H; subst. right; left.
             exists (ADb d). split; [exact I|]. split; [reflexivity|].
             intros r2 Hs. destruct r2; cbn [same_but_expectation] in Hs; try contradiction.
             ++ destruct e0; try contradiction. destruct Hs as (<- & <- & <- & <- & <-).
                cbn [Runner.apply_record apply]. rewrite M, G, S, D. reflexivity.
             ++ destruct Hs as (<- & <- & <- & <- & <- & _).
                cbn [Runner.apply_record apply]. rewrite M, G, S, D. reflexivity.
        * inversion H; subst. right; left.
          exists (ADb (DErr (connect_failed_msg (makes w)))). split; [exact I|]. split; [reflexivity|].
          intros r2 Hs. destruct r2; cbn [same_but_expectation] in Hs; try contradiction.
          ++ destruct e0; try contradiction. destruct Hs as (<- & <- & <- & <- & <-).
             cbn [Runner.apply_record apply apply_stmt]. rewrite M, G. reflexivity.
          ++ destruct Hs as (<- & <- & <- & <- & <- & _).
             cbn [Runner.apply_record apply apply_query]. rewrite M, G. reflexivity.
      + inversion H; subst. right; left.
        exists (ADb (DErr m)). split; [exact I|]. split; [reflexivity|].
        intros r2 Hs. destruct r2; cbn [same_but_expectation] in Hs; try contradiction.
        ++ destruct e0; try contradiction. destruct Hs as (<- & <- & <- & <- & <-).
           cbn [Runner.apply_record apply apply_stmt]. rewrite M. reflexivity.
        ++ destruct Hs as (<- & <- & <- & <- & <- & _).
           cbn [Runner.apply_record apply apply_query]. rewrite M. reflexivity.
      + left. cbn [reread Runner.apply_record]. rewrite M. inversion H; subst. split; reflexivity.
    - (* system *)
      destruct (should_skip (labels st) [] conds) eqn:S.
      + left. cbn [reread Runner.apply_record]. rewrite S. inversion H; subst. split; reflexivity.
      + destruct (may_substitute substitute st false cmd) as [cmd'|m|] eqn:M.
        * destruct (is_background cmd') eqn:B.
          { inversion H; subst. right; right.
            exists l, conds, cmd, stdout, r. split; [reflexivity|]. split; [reflexivity|].
            intros ex2. cbn [Runner.apply_record]. rewrite S, M, B. reflexivity. }
          destruct (sys_request sc w) as [a w2] eqn:D. inversion H; subst. right; left.
          exists (ASys a). split; [exact I|]. split; [reflexivity|].
          intros r2 Hs. destruct r2; cbn [same_but_expectation] in Hs; try contradiction.
          destruct Hs as (<- & <- & <- & <-).
          cbn [Runner.apply_record apply]. rewrite S, M, B, D. reflexivity.
        * inversion H; subst. right; left.
          exists (ASys SysSpawnErr). split; [exact I|]. split; [reflexivity|].
          intros r2 Hs. destruct r2; cbn [same_but_expectation] in Hs; try contradiction.
          destruct Hs as (<- & <- & <- & <-).
          cbn [Runner.apply_record apply apply_system]. rewrite S, M. reflexivity.
        * left. cbn [reread Runner.apply_record]. rewrite S, M. inversion H; subst. split; reflexivity.
    - (* control *)
      left. cbn [reread Runner.apply_record]. destruct c; inversion H; subst; split; reflexivity.
  Qed.

  (* the column-strictness flag of the configuration is never changed by a record *)
  Lemma get_conn_cfg st w c ev st1 w1 o :
    get_conn sc st w c = (ev, st1, w1, o) -> cfg st1 = cfg st.
  Proof.
    unfold get_conn. destruct (find_conn c (conns st)); [intros H; inversion H; reflexivity|].
    destruct (mem_N (makes w) (make_fail sc)); intros H; inversion H; reflexivity.
  Qed.

  Lemma apply_record_strict st w r ev st1 w1 o :
    apply_record st w r = (ev, st1, w1, o) -> strict_cols (cfg st1) = strict_cols (cfg st).
  Proof.
    intros H. destruct r; cbn [Runner.apply_record] in H;
      try (inversion H; subst; reflexivity).
    - destruct (may_substitute substitute st true sql); try (inversion H; subst; reflexivity).
      destruct (get_conn sc st w c) as [[[ev1 st2] w2] [id|]] eqn:G;
        apply get_conn_cfg in G.
      + destruct (should_skip (labels st2) (engine sc) conds).
        * inversion H; subst. now rewrite G.
        * destruct (db_request sc w2 id). inversion H; subst. now rewrite G.
      + inversion H; subst. now rewrite G.
    - destruct (may_substitute substitute st true sql); try (inversion H; subst; reflexivity).
      destruct (get_conn sc st w c) as [[[ev1 st2] w2] [id|]] eqn:G;
        apply get_conn_cfg in G.
      + destruct (should_skip (labels st2) (engine sc) conds).
        * inversion H; subst. now rewrite G.
        * destruct (db_request sc w2 id). inversion H; subst. now rewrite G.
      + inversion H; subst. now rewrite G.
    - destruct (should_skip (labels st) [] conds); [inversion H; subst; reflexivity|].
      destruct (may_substitute substitute st false cmd) as [cmd'| |]; try (inversion H; subst; reflexivity).
      destruct (is_background cmd'); inversion H; subst; reflexivity.
    - destruct c; inversion H; subst; reflexivity.
  Qed.

  (* a record whose first attempt passes: run_async does exactly one application *)
  Lemma run_async_first_pass st w r ev st1 w1 o :
    apply_record st w r = (ev, st1, w1, o) ->
    judge re (cfg st1) r o = Pass ->
    retry_ok r ->
    run_async re substitute sc st w r = (ev, st1, w1, o, Pass).
  Proof.
    intros A J R. unfold run_async, retry_ok in *.
    destruct (record_retry r) as [rt|].
    - unfold retry_loop. destruct (N.to_nat (attempts rt)) as [|n] eqn:E; [lia|].
      cbn [retry_gen]. unfold attempt_record at 1. cbn [fst snd]. unfold run_no_retry.
      rewrite A, J. reflexivity.
    - unfold run_no_retry. rewrite A, J. reflexivity.
  Qed.
End Rec.

(* ------------------------------------------------------------------ one judged record, twice *)
Section Step.
  Variable re : str -> str -> bool.
  Variable sep : str.
  Hypothesis Hesc : escape_law re.

  Notation upd1 cfg r a :=
    (match update_record re sep (strict_cols cfg) r (apply cfg r a) with Some x => x | None => r end).

  Lemma update_query_rows_form strict l cs c sql e rt t rows r' :
    update_record re sep strict (RQuery l cs c sql e rt) (OQuery t rows None) = Some r' ->
    exists ty lb res, r' = RQuery l cs c sql (QResults ty (query_sort e) lb res) rt.
  Proof.
    cbn [update_record]. destruct e; intros H; inversion H; eexists _, _, _; reflexivity.
  Qed.

  (* the known-finding classes of the rewritten record on the same answer are those of the
     original record: the rewritten query keeps its sort mode, hence produces the same rows *)
  Lemma known_class_step cfg r a :
    judged r a ->
    known_class sep cfg r (apply cfg r a) = [] ->
    known_class sep cfg (reread (upd1 cfg r a)) (apply cfg (reread (upd1 cfg r a)) a) = [].
  Proof.
    intros Hj Hk.
    destruct r; destruct a as [d|s]; cbn [judged] in Hj; try contradiction.
    - (* statement: stays a statement *)
      destruct (update_record re sep (strict_cols cfg) _ _) as [r'|] eqn:U; [|reflexivity].
      apply update_frame in U. destruct r'; cbn [same_but_expectation] in U; try contradiction.
      reflexivity.
    - (* query *)
      destruct d as [t rows|n|m]; cbn [apply apply_query] in *.
      + destruct (update_record re sep (strict_cols cfg) _ _) as [r'|] eqn:U; [|exact Hk].
        apply update_query_rows_form in U. destruct U as (ty & lb & res & ->).
        cbn [reread apply apply_query query_sort]. exact Hk.
      + cbn [update_record]. reflexivity.
      + destruct (update_record re sep (strict_cols cfg) _ _) as [r'|] eqn:U; [|reflexivity].
        apply update_frame in U. destruct r'; cbn [same_but_expectation] in U; try contradiction.
        * reflexivity.
        * cbn [reread apply apply_query]. reflexivity.
    - (* system *)
      destruct (update_record re sep (strict_cols cfg) _ _) as [r'|] eqn:U; [|reflexivity].
      apply update_frame in U. destruct r'; cbn [same_but_expectation] in U; try contradiction.
      reflexivity.
  Qed.

  (* C06 for one judged record in the form the file-level induction uses: the record written
     by the updater, read back, (1) differs from the original in the expectation only, (2) is
     accepted by the judge on the same answer, (3) is left as it is by a second update *)
  Lemma judged_step cfg r a :
    judged r a ->
    known_class sep cfg r (apply cfg r a) = [] ->
    cmd_ok (apply cfg r a) ->
    let r1 := reread (upd1 cfg r a) in
    same_but_expectation r r1 /\
    run_record re cfg r1 a = Pass /\
    reread (upd1 cfg r1 a) = r1.
  Proof.
    intros Hj Hk Hc. cbv zeta.
    destruct (cmd_ok_answer _ _ _ Hj Hc) as [Hok Hsp].
    destruct (update_record re sep (strict_cols cfg) r (apply cfg r a)) as [r'|] eqn:U.
    - pose proof (update_frame _ _ _ _ _ _ U) as Hf.
      destruct (update_converges re sep cfg r a r' Hesc Hj Hk Hok Hsp U) as [Hp Hfix].
      split; [apply sbe_reread; exact Hf|]. split; [exact Hp|].
      destruct (update_record re sep (strict_cols cfg) (reread r') (apply cfg (reread r') a)) as [r''|] eqn:U2.
      + apply update_frame in U2. rewrite (sbe_written_reread _ _ U2 Hfix). apply reread_idem.
      + apply reread_idem.
    - destruct (update_none_passes re sep cfg r a Hj Hok Hsp U) as [Hn|Hp];
        [exfalso; eapply apply_not_nothing; eauto|].
      assert (Hr : reread r = r).
      { destruct r; try reflexivity. exfalso.
        destruct a as [d|s]; cbn [judged] in Hj; [contradiction|].
        destruct s as [ok out|]; [|congruence]. rewrite (Hok ok out eq_refl) in U.
        cbn [apply apply_system update_record] in U. discriminate. }
      rewrite Hr, U. split; [eapply sbe_refl_judged; eauto|]. split; [exact Hp|exact Hr].
  Qed.
End Step.
