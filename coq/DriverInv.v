(* DriverInv.v — invariants of the driver model on its own (no observer yet):
   the task list stays aligned with the file list, phases see the task states they expect,
   at most [jobs] futures are held, session ids are fresh. *)
From SLT Require Import Base Par Cli ParProofs Driver DriverTrans.
Open Scope N_scope.

Definition open_of (t : tstate) : list N :=
  match t with TRunning _ c => map snd c | TClosing _ o _ => o | _ => [] end.
Definition had_of (t : tstate) : bool :=
  match t with
  | TRunning _ c => negb (is_nil c)
  | TClosing _ _ h | TDone _ h | TReported h => h
  | _ => false
  end.
Definition post_run (t : tstate) : bool :=
  match t with TClosing _ _ _ | TDone _ _ | TReported _ => true | _ => false end.
Definition settled (t : tstate) : bool :=
  match t with TClosing _ [] _ | TDone _ _ | TReported _ => true | _ => false end.

Definition sid_ok (next : N) (t : tstate) : Prop :=
  NoDup (open_of t) /\ (forall s, In s (open_of t) -> s < next) /\ (had_of t = false -> open_of t = []).

Definition wf_cfg (cf : cfg) : Prop := NoDup (dbs_of cf).

Record DInv (cf : cfg) (st : dst) : Prop := mkDInv {
  w_files : map fst (d_tasks st) = c_files cf;
  w_phase : match d_phase st with
            | DCreate todo => all_tasks is_idle (d_tasks st) = true /\ exists pre, dbs_of cf = pre ++ todo
            | DStream => True
            | DDrop todo => all_tasks is_reported (d_tasks st) = true /\
                            (exists pre, dbs_of cf = pre ++ todo) /\ d_refused st = false
            | _ => all_tasks is_reported (d_tasks st) = true
            end;
  w_jobs : (n_active (d_tasks st) <= c_jobs cf)%nat;
  w_sid : forall i f t, nth_error (d_tasks st) i = Some (f, t) -> sid_ok (d_next st) t
}.

Lemma all_tasks_map P (fs : list fcfg) t : P t = true -> all_tasks P (map (fun f => (f, t)) fs) = true.
Proof. intros H. unfold all_tasks. induction fs; cbn; [reflexivity|]. rewrite H, IHfs. reflexivity. Qed.

Lemma n_active_idle l : all_tasks is_idle l = true -> n_active l = O.
Proof.
  unfold all_tasks, n_active. induction l as [|[f t] l IH]; cbn [forallb filter snd]; [reflexivity|].
  rewrite andb_true_iff. intros [H1 H2]. destruct t; try discriminate H1. cbn [active]. apply IH; exact H2.
Qed.

Lemma DInv_init cf : DInv cf (dst0 cf).
Proof.
  constructor; cbn [dst0 d_phase d_tasks d_next d_refused].
  - rewrite map_map. cbn [fst]. apply map_id.
  - split; [apply all_tasks_map; reflexivity|exists []; reflexivity].
  - rewrite n_active_idle; [lia|apply all_tasks_map; reflexivity].
  - intros i f t H. apply nth_error_In in H. apply in_map_iff in H. destruct H as [g [E _]].
    injection E as _ <-. unfold sid_ok; cbn [open_of had_of]. split; [constructor|split; [intros s []|reflexivity]].
Qed.

Lemma removeN_In x y l : In y (removeN x l) -> In y l.
Proof.
  induction l as [|z l IH]; cbn [removeN In]; [tauto|].
  destruct (x =? z); cbn [In]; intuition.
Qed.

Lemma removeN_NoDup x l : NoDup l -> NoDup (removeN x l) /\ ~ In x (removeN x l).
Proof.
  induction l as [|z l IH]; cbn [removeN]; intros Hnd.
  - split; [constructor|intros []].
  - inversion Hnd as [|z' l' Hz Hl]; subst.
    destruct (N.eqb_spec x z) as [E|E].
    + subst z. split; assumption.
    + destruct (IH Hl) as [IH1 IH2]. split.
      * constructor; [|exact IH1]. intros Hin. apply Hz. eapply removeN_In; exact Hin.
      * intros [Heq|Hin]; [congruence|exact (IH2 Hin)].
Qed.

Lemma removeN_other x y l : In y l -> y <> x -> In y (removeN x l).
Proof.
  induction l as [|z l IH]; cbn [removeN In]; [tauto|].
  intros [H|H] Hne.
  - subst z. destruct (N.eqb_spec x y); [congruence|left; reflexivity].
  - destruct (x =? z); [exact H|]. right. apply IH; assumption.
Qed.

Lemma lookupN_In c l s : lookupN c l = Some s -> In s (map snd l).
Proof.
  induction l as [|[c' s'] l IH]; cbn [lookupN map snd In]; [discriminate|].
  destruct (c =? c'); [intros H; injection H as ->; auto|auto].
Qed.

Ltac sid3 := unfold sid_ok; cbn [open_of had_of]; split; [|split].
Ltac sid_nil := sid3; [constructor|intros ? []|reflexivity].

Lemma sid_ok_mono next next' t : next <= next' -> sid_ok next t -> sid_ok next' t.
Proof. intros L [A [B C]]. repeat split; auto. intros s Hs. specialize (B s Hs). lia. Qed.

(* one task step keeps the task's own session bookkeeping sound *)
Lemma ttrans_sid f tok nr next t t' evs next' :
  ttrans f tok nr next t t' evs next' -> sid_ok next t -> sid_ok next' t' /\ next <= next'.
Proof.
  intros T [A [B C]]. destruct T; cbn [open_of had_of] in *; (split; [|lia]).
  - sid3; auto.
  - sid_nil.
  - sid_nil.
  - sid_nil.
  - sid3; auto.
  - sid3; auto.
  - sid3; auto.
  - sid3; cbn [map snd].
    + constructor; [|exact A]. intros Hin. specialize (B _ Hin). lia.
    + intros s [<-|Hs]; [lia|]. specialize (B _ Hs). lia.
    + cbn. discriminate.
  - sid3; auto.
  - sid3; auto.
  - sid_nil.
  - destruct (removeN_NoDup s open A) as [A' _]. sid3; [exact A'| |].
    + intros x Hx. apply B. eapply removeN_In; exact Hx.
    + intros Hh. rewrite (C Hh) in H. destruct H.
Qed.

Lemma ttrans_active f tok nr next t t' evs next' :
  ttrans f tok nr next t t' evs next' -> active t' = active t.
Proof. intros T; destruct T; reflexivity. Qed.

Lemma n_active_upd_same i f t t' l : nth_error l i = Some (f, t) -> active t' = active t ->
  n_active (upd i (f, t') l) = n_active l.
Proof.
  intros H E. unfold n_active.
  pose proof (filter_upd_length (fun p => active (snd p)) i (f, t') (f, t) l H) as L.
  cbn [snd] in L. rewrite E in L. lia.
Qed.

Lemma DInv_trans cf st st' evs : DInv cf st -> trans cf st st' evs -> DInv cf st'.
Proof.
  intros [Wf Wp Wj Ws] T. destruct T.
  - constructor; assumption.
  - (* create done *) constructor; cbn; auto.
  - (* create *) rewrite H in Wp. destruct Wp as [Wa [pre Hpre]].
    constructor; cbn; auto. split; [exact Wa|]. exists (pre ++ [db]). rewrite <- app_assoc. exact Hpre.
  - (* spawn *) constructor; cbn [set_tasks d_tasks d_phase d_next d_refused].
    + rewrite (map_fst_upd _ _ _ _ _ H1). exact Wf.
    + rewrite H. exact I.
    + unfold n_active in *.
      pose proof (filter_upd_length (fun p => active (snd p)) i (f, TSpawned) (f, TIdle) _ H1) as L.
      cbn [snd active] in L. lia.
    + intros j g t Hj. destruct (nth_error_upd _ _ _ _ _ _ H1 Hj) as [[-> E]|[_ E]].
      * injection E as -> ->. sid_nil.
      * eapply Ws; exact E.
  - (* stream done *) constructor; cbn [set_phase d_tasks d_phase d_next d_refused]; auto.
    destruct (d_refused st) eqn:R; [exact H0|]. split; [exact H0|]. split; [exists []; reflexivity|reflexivity].
  - (* drop done *) rewrite H in Wp. constructor; cbn; auto. tauto.
  - (* drop skip *) rewrite H in Wp. destruct Wp as [Wa [[pre Hpre] Wr]].
    constructor; cbn; auto. split; [exact Wa|]. split; [|exact Wr]. exists (pre ++ [db]). rewrite <- app_assoc. exact Hpre.
  - (* drop *) rewrite H in Wp. destruct Wp as [Wa [[pre Hpre] Wr]].
    constructor; cbn; auto. split; [exact Wa|]. split; [|exact Wr]. exists (pre ++ [db]). rewrite <- app_assoc. exact Hpre.
  - (* mgmt *) rewrite H in Wp. constructor; cbn; auto.
  - (* task *) constructor; cbn [set_tasks d_tasks d_phase d_next d_refused].
    + rewrite (map_fst_upd _ _ _ _ _ H0). exact Wf.
    + rewrite H. exact I.
    + rewrite (n_active_upd_same _ _ _ _ _ H0 (ttrans_active _ _ _ _ _ _ _ _ H1)). exact Wj.
    + destruct (ttrans_sid _ _ _ _ _ _ _ _ H1 (Ws _ _ _ H0)) as [S1 S2].
      intros j g u Hj. destruct (nth_error_upd _ _ _ _ _ _ H0 Hj) as [[-> E]|[_ E]].
      * injection E as -> ->. exact S1.
      * eapply sid_ok_mono; [exact S2|eapply Ws; exact E].
  - (* report *)
    assert (Hact : (n_active (upd i (f, TReported had) (d_tasks st)) <= c_jobs cf)%nat).
    { unfold n_active in *.
      pose proof (filter_upd_length (fun p => active (snd p)) i (f, TReported had) (f, TDone r had) _ H0) as L.
      cbn [snd active] in L. lia. }
    assert (Hsid : forall j g u, nth_error (upd i (f, TReported had) (d_tasks st)) j = Some (g, u) -> sid_ok (d_next st) u).
    { intros j g u Hj. destruct (nth_error_upd _ _ _ _ _ _ H0 Hj) as [[-> E]|[_ E]].
      - injection E as -> ->. sid_nil.
      - eapply Ws; exact E. }
    unfold report_result. destruct r; cbn [fst snd]; constructor; cbn [d_tasks d_phase d_next d_refused]; auto;
      rewrite (map_fst_upd _ _ _ _ _ H0); exact Wf.
  - (* ctrl-c *) constructor; cbn; auto.
Qed.

Lemma DInv_reach cf st st' tr : DInv cf st -> reach cf st st' tr -> DInv cf st'.
Proof. intros I R. induction R; [exact I|]. apply IHR. eapply DInv_trans; eauto. Qed.

(* at no point of any run are more than [jobs] files held by the stream (spawned and not yet reported) *)
Theorem driver_holds_at_most_jobs cf sched st tr :
  drun cf (dst0 cf) sched = (st, tr) -> (n_active (d_tasks st) <= c_jobs cf)%nat.
Proof.
  intros H. apply drun_reach in H. exact (w_jobs _ _ (DInv_reach _ _ _ _ (DInv_init cf) H)).
Qed.
