(* RenderProofs.v — C03: parsing a rendered well-formed script gives its elaboration. *)
From SLT Require Import Base Text Syntax Duration Parser Render TextProofs.
Open Scope N_scope.

(* ------------------------------------------------------------------ *)
(* 1. header lines split into their words                              *)

Lemma blank_ws b : blank b -> Forall (fun c => is_ws c = true) b.
Proof.
  intros H. eapply Forall_impl; [|exact H]. intros c [Hc _]. exact Hc.
Qed.

Lemma sep_default (seps : list str) :
  Forall (fun b => blank b /\ b <> []) seps ->
  blank (hd [32] seps) /\ hd [32] seps <> [].
Proof.
  intros H. destruct seps as [|s seps]; cbn [hd].
  - split; [|discriminate]. constructor; [|constructor].
    split; [reflexivity | split; discriminate].
  - inversion H; subst; assumption.
Qed.

Lemma split_ws_weave : forall toks seps trail,
  toks <> [] -> Forall token toks -> Forall (fun b => blank b /\ b <> []) seps -> blank trail ->
  split_ws (weave toks seps ++ trail) = toks.
Proof.
  unfold split_ws.
  induction toks as [|t ts IH]; intros seps trail Hne Htok Hseps Htr; [contradiction|].
  inversion Htok as [|t' ts' [Ht1 Ht2] Hts]; subst.
  destruct ts as [|t2 ts].
  - cbn [weave]. apply split_word_trail; [assumption | assumption | apply blank_ws; assumption].
  - change (weave (t :: t2 :: ts) seps) with (t ++ hd [32] seps ++ weave (t2 :: ts) (tl seps)).
    rewrite <- !app_assoc.
    destruct (sep_default seps Hseps) as [Hb Hbne].
    rewrite split_word_blank; try assumption; [|apply blank_ws; assumption].
    f_equal. apply IH; try assumption; [discriminate|].
    destruct seps as [|s seps]; [constructor|]. inversion Hseps; subst; assumption.
Qed.

Lemma split_ws_header n h toks :
  wf_hlay n h -> toks <> [] -> Forall token toks -> split_ws (header h toks) = toks.
Proof.
  intros (Hl & Ht & _ & Hs) Hne Htok. unfold header, split_ws.
  rewrite split_aux_blank0 by (apply blank_ws; assumption).
  apply split_ws_weave; assumption.
Qed.

Lemma split_ws_blank ws : blank ws -> split_ws ws = [].
Proof.
  intros H. unfold split_ws. rewrite <- (app_nil_r ws).
  rewrite split_aux_blank0 by (apply blank_ws; assumption). reflexivity.
Qed.

(* words *)
Lemma token_check s :
  (match s with [] => false | _ => true end) && forallb (fun c => negb (is_ws c)) s = true ->
  token s.
Proof.
  intros H. apply andb_true_iff in H as [H1 H2]. split.
  - destruct s; [discriminate H1 | discriminate].
  - apply Forall_forall. intros c Hc. rewrite forallb_forall in H2.
    apply H2 in Hc. apply negb_true_iff in Hc. exact Hc.
Qed.
Ltac tok_lit := apply token_check; vm_compute; reflexivity.

Lemma dec_token n : token (dec n).
Proof. split; [apply dec_nonnil | apply dec_no_ws]. Qed.

Lemma sort_word_token m : token (sort_word m).
Proof. destruct m; tok_lit. Qed.

Lemma retry_words_token r : wf_retry r -> Forall token (retry_words r).
Proof.
  destruct r as [c|]; cbn [wf_retry retry_words]; [|constructor].
  intros (_ & Hd & _).
  repeat (apply Forall_cons || apply Forall_nil);
    first [apply dec_token | assumption | tok_lit].
Qed.

Lemma control_words_token c : Forall token (control_words c).
Proof.
  destruct c as [m|m|b]; [destruct m | destruct m | destruct b];
    cbn [control_words sort_word]; repeat (apply Forall_cons || apply Forall_nil); tok_lit.
Qed.

(* ------------------------------------------------------------------ *)
(* 2. the header parsers on rendered words                             *)

Lemma parse_retry_shape a d :
  parse_retry [lit "retry"; a; lit "backoff"; d] =
  match parse_u64 a with
  | None => HErr PInvalidNumber
  | Some n => if n =? 0 then HErr PInvalidRetryConfig else
              match parse_duration d with
              | DBad => HErr PInvalidDuration
              | DPanic => HPanic
              | DOk ns => HOk (Some (mkRetry n ns))
              end
  end.
Proof. reflexivity. Qed.

Lemma parse_retry_words r : wf_retry r -> parse_retry (retry_words r) = HOk (retry_of r).
Proof.
  destruct r as [c|]; cbn [wf_retry retry_words retry_of]; [|reflexivity].
  intros ((Hlo & Hhi) & _ & Hd).
  rewrite parse_retry_shape. rewrite parse_u64_dec by assumption.
  destruct (N.eqb_spec (rc_attempts c) 0) as [E|E]; [lia|].
  rewrite Hd. reflexivity.
Qed.

Lemma with_retry_words r f : wf_retry r -> with_retry (retry_words r) f = HOk (f (retry_of r)).
Proof. intros H. unfold with_retry. rewrite parse_retry_words by assumption. reflexivity. Qed.

Section Headers.
  Variable col : N -> option N.
  Variable re : str -> bool.

  (* the expectation announced on the header line (a multi-line text arrives later) *)
  Definition shdr_expect (f : sform) : stmt_expect :=
    match f with SFErrMulti _ => SError EEmpty | _ => sform_expect f end.
  Definition qhdr_expect (f : qform) : query_expect :=
    match f with
    | QFErrMulti _ => QError EEmpty
    | QFResults _ types s lb _ _ => QResults types s lb []
    | _ => qform_expect f
    end.

  Lemma is_retry_shape_words r : is_retry_shape (retry_words r) = match r with Some _ => true | None => false end.
  Proof. destruct r; reflexivity. Qed.

  Lemma parse_error_tail_any r :
    wf_retry r ->
    (if is_retry_shape (retry_words r) then with_retry (retry_words r) (HStatement (SError EEmpty))
     else match parse_inline re (retry_words r) with
          | HOk e => HOk (HStatement (SError e) None)
          | HErr k => HErr k
          | HPanic => HPanic
          end) = HOk (HStatement (SError EEmpty) (retry_of r)).
  Proof.
    intros H. rewrite is_retry_shape_words. destruct r as [c|].
    - apply with_retry_words; assumption.
    - reflexivity.
  Qed.

  Lemma parse_inline_ok ws : wf_inline re ws -> parse_inline re ws = HOk (EInline (join [32] ws)).
  Proof.
    intros (Hne & Htok & _ & Hre). unfold parse_inline.
    assert (Hj : join [32] ws <> []).
    { apply join_nonnil; [assumption|]. destruct ws as [|w ws]; [contradiction|].
      inversion Htok as [|w' ws' [Hw _] _]; subst. exact Hw. }
    destruct (join [32] ws) as [|c s] eqn:E; [contradiction|].
    rewrite Hre. reflexivity.
  Qed.

  Lemma parse_statement_header_words f r :
    wf_sform re f r -> wf_retry r ->
    parse_statement_header re (tl (sform_words f ++ retry_words r)) =
    HOk (HStatement (shdr_expect f) (retry_of r)).
  Proof.
    intros Hf Hr. destruct f as [|n| |ws|t]; cbn [sform_words app tl shdr_expect sform_expect].
    - change (parse_statement_header re (lit "ok" :: retry_words r))
        with (with_retry (retry_words r) (HStatement SOk)).
      apply with_retry_words; assumption.
    - change (parse_statement_header re (lit "count" :: dec n :: retry_words r))
        with (match parse_u64 (dec n) with
              | Some n => with_retry (retry_words r) (HStatement (SCount n))
              | None => HErr PInvalidNumber
              end).
      cbn [wf_sform] in Hf. rewrite parse_u64_dec by assumption.
      apply with_retry_words; assumption.
    - change (parse_statement_header re (lit "error" :: retry_words r))
        with (if is_retry_shape (retry_words r) then with_retry (retry_words r) (HStatement (SError EEmpty))
              else match parse_inline re (retry_words r) with
                   | HOk e => HOk (HStatement (SError e) None)
                   | HErr k => HErr k
                   | HPanic => HPanic
                   end).
      apply parse_error_tail_any; assumption.
    - destruct Hf as [Hw ->]. cbn [retry_words retry_of]. rewrite app_nil_r.
      change (parse_statement_header re (lit "error" :: ws))
        with (if is_retry_shape ws then with_retry ws (HStatement (SError EEmpty))
              else match parse_inline re ws with
                   | HOk e => HOk (HStatement (SError e) None)
                   | HErr k => HErr k
                   | HPanic => HPanic
                   end).
      destruct Hw as (Hne & Htok & Hsh & Hre). rewrite Hsh.
      rewrite parse_inline_ok by (repeat split; assumption). reflexivity.
    - change (parse_statement_header re (lit "error" :: retry_words r))
        with (if is_retry_shape (retry_words r) then with_retry (retry_words r) (HStatement (SError EEmpty))
              else match parse_inline re (retry_words r) with
                   | HOk e => HOk (HStatement (SError e) None)
                   | HErr k => HErr k
                   | HPanic => HPanic
                   end).
      apply parse_error_tail_any; assumption.
  Qed.

  Lemma parse_qerror_tail_any r :
    wf_retry r ->
    (if is_retry_shape (retry_words r) then with_retry (retry_words r) (HQuery (QError EEmpty))
     else match parse_inline re (retry_words r) with
          | HOk e => HOk (HQuery (QError e) None)
          | HErr k => HErr k
          | HPanic => HPanic
          end) = HOk (HQuery (QError EEmpty) (retry_of r)).
  Proof.
    intros H. rewrite is_retry_shape_words. destruct r as [c|].
    - apply with_retry_words; assumption.
    - reflexivity.
  Qed.

  Lemma parse_query_header_error rest :
    parse_query_header col re (lit "error" :: rest) =
    if is_retry_shape rest then with_retry rest (HQuery (QError EEmpty))
    else match parse_inline re rest with
         | HOk e => HOk (HQuery (QError e) None)
         | HErr k => HErr k
         | HPanic => HPanic
         end.
  Proof. reflexivity. Qed.

  Lemma parse_query_header_types tw types rest :
    kw "error" tw = false -> parse_types col tw = Some types ->
    parse_query_header col re (tw :: rest) =
    let sm := match rest with s :: _ => parse_sortmode s | [] => None end in
    let rest1 := match sm with Some _ => tl rest | None => rest end in
    let label := match rest1 with
                 | l :: _ => if kw "retry" l then None else Some l
                 | [] => None
                 end in
    let rest2 := match label with Some _ => tl rest1 | None => rest1 end in
    with_retry rest2 (HQuery (QResults types sm label [])).
  Proof.
    intros H1 H2. unfold parse_query_header. rewrite H1, H2. reflexivity.
  Qed.

  Lemma parse_sortmode_word m : parse_sortmode (sort_word m) = Some m.
  Proof. destruct m; reflexivity. Qed.

  Lemma retry_words_label r :
    match retry_words r with
    | l :: _ => if kw "retry" l then None else Some l
    | [] => None
    end = None.
  Proof. destruct r; reflexivity. Qed.

  Lemma retry_words_sort r :
    match retry_words r with s :: _ => parse_sortmode s | [] => None end = None.
  Proof. destruct r; reflexivity. Qed.

  Lemma parse_query_header_words f r :
    wf_qform col re f r -> wf_retry r ->
    parse_query_header col re (tl (qform_words f ++ retry_words r)) =
    HOk (HQuery (qhdr_expect f) (retry_of r)).
  Proof.
    intros Hf Hr. destruct f as [tw types s lb has res| |ws|t];
      cbn [qform_words app tl qhdr_expect qform_expect].
    - destruct Hf as (Htw & Herr & Hty & Hlb & _ & _).
      rewrite (parse_query_header_types tw types _ Herr Hty).
      destruct s as [m|]; destruct lb as [l|]; cbn [app].
      + destruct Hlb as (_ & Hl & _).
        rewrite parse_sortmode_word. cbn [tl]. rewrite Hl. cbn [tl].
        apply with_retry_words; assumption.
      + rewrite parse_sortmode_word. cbn [tl]. rewrite retry_words_label.
        apply with_retry_words; assumption.
      + destruct Hlb as (_ & Hl & Hs). rewrite (Hs eq_refl). rewrite Hl. cbn [tl].
        apply with_retry_words; assumption.
      + rewrite retry_words_sort. rewrite retry_words_label.
        apply with_retry_words; assumption.
    - rewrite parse_query_header_error. apply parse_qerror_tail_any; assumption.
    - destruct Hf as [Hw ->]. cbn [retry_words retry_of]. rewrite app_nil_r.
      rewrite parse_query_header_error.
      destruct Hw as (Hne & Htok & Hsh & Hre). rewrite Hsh.
      rewrite parse_inline_ok by (repeat split; assumption). reflexivity.
    - rewrite parse_query_header_error. apply parse_qerror_tail_any; assumption.
  Qed.
End Headers.

(* ------------------------------------------------------------------ *)
(* 3. the line machine                                                 *)

Section Machine.
  Variable col : N -> option N.
  Variable re : str -> bool.
  Variable file : str.
  Variable upper : option loc.

  Notation step := (Parser.step col re file upper).
  Notation run_lines := (Parser.run_lines col re file upper).
  Notation top_line := (Parser.top_line col re file upper).
  Notation emit := (Parser.emit file upper).
  Notation finish_multi := (Parser.finish_multi file upper).
  Notation finish := (Parser.finish file upper).
  Notation mkloc := (Parser.mkloc file upper).

  Lemma run_lines_app a : forall p b,
    run_lines p (a ++ b) =
    match run_lines p a with SNext p' => run_lines p' b | e => e end.
  Proof.
    induction a as [|l a IH]; intros p b; [reflexivity|].
    cbn [app Parser.run_lines]. destruct (step p l); try reflexivity. apply IH.
  Qed.

  (* records once the pending comment block is flushed *)
  Definition vr (rs : list record) (cm : list str) : list record :=
    rs ++ match cm with [] => [] | _ => [RComment cm] end.

  Lemma flush_mk rs cs cn cm ln m :
    flush_comments (mkP rs cs cn cm ln m) = mkP (vr rs cm) cs cn [] ln m.
  Proof.
    unfold vr. destruct cm as [|c cm]; [|reflexivity].
    rewrite app_nil_r. reflexivity.
  Qed.

  Definition erec (hl : N) (cs : list cond) (cn : conn) (h : hdr) (sql : str)
             (fq : list str) (fe : option experr) (fo : option str) : record :=
    match h with
    | HStatement e r =>
        RStatement (mkloc hl) cs cn sql
          (match fe, e with Some x, SError _ => SError x | _, _ => e end) r
    | HQuery e r =>
        RQuery (mkloc hl) cs cn sql
          (match e with
           | QResults t s lb _ => QResults t s lb fq
           | QError x => match fe with Some y => QError y | None => QError x end
           end) r
    | HSystem r => RSystem (mkloc hl) cs sql fo r
    end.
  Definition econn (h : hdr) (cn : conn) : conn :=
    match h with HSystem _ => cn | _ => CDefault end.

  Lemma emit_mk rs cs cn cm ln m hl h sql fq fe fo :
    emit (mkP rs cs cn cm ln m) hl h sql fq fe fo =
    mkP (rs ++ [erec hl cs cn h sql fq fe fo]) [] (econn h cn) cm ln Top.
  Proof. destruct h; reflexivity. Qed.

  Definition multi_fe (h : hdr) (t : str) : option experr :=
    match h with HSystem _ => None | _ => Some (EMulti t) end.
  Definition multi_fo (h : hdr) (t : str) : option str :=
    match h with HSystem _ => Some t | _ => None end.

  Lemma finish_multi_mk rs cs cn cm ln m hl h sql acc :
    finish_multi (mkP rs cs cn cm ln m) hl h sql acc =
    mkP (rs ++ [erec hl cs cn h sql [] (multi_fe h (trim acc)) (multi_fo h (trim acc))])
        [] (econn h cn) cm ln Top.
  Proof. destruct h; reflexivity. Qed.

  (* -- single steps *)
  Lemma step_first rs cs cn cm ln hl h l :
    step (mkP rs cs cn cm ln (First hl h)) l = SNext (mkP rs cs cn cm (ln + 1) (Body hl h l)).
  Proof. reflexivity. Qed.

  Lemma step_body_blank rs cs cn cm ln hl h sql :
    step (mkP rs cs cn cm ln (Body hl h sql)) [] =
    SNext (mkP (rs ++ [erec hl cs cn h sql [] None None]) [] (econn h cn) cm (ln + 1) Top).
  Proof.
    change (step (mkP rs cs cn cm ln (Body hl h sql)) [])
      with (SNext (emit (mkP rs cs cn cm (ln + 1) (Body hl h sql)) hl h sql [] None None)).
    rewrite emit_mk. reflexivity.
  Qed.

  Lemma step_body_line rs cs cn cm ln hl h sql l :
    l <> [] -> l <> DELIM ->
    step (mkP rs cs cn cm ln (Body hl h sql)) l =
    SNext (mkP rs cs cn cm (ln + 1) (Body hl h (sql ++ [10] ++ l))).
  Proof.
    intros H1 H2. destruct l as [|c l]; [contradiction|].
    change (step (mkP rs cs cn cm ln (Body hl h sql)) (c :: l))
      with (if str_eqb (c :: l) DELIM
            then on_delimiter (mkP rs cs cn cm (ln + 1) (Body hl h sql)) hl h sql
            else SNext (mkP rs cs cn cm (ln + 1) (Body hl h (sql ++ [10] ++ c :: l)))).
    destruct (str_eqb_spec (c :: l) DELIM) as [E|E]; [contradiction|reflexivity].
  Qed.

  Lemma step_body_delim rs cs cn cm ln hl h sql :
    step (mkP rs cs cn cm ln (Body hl h sql)) DELIM =
    on_delimiter (mkP rs cs cn cm (ln + 1) (Body hl h sql)) hl h sql.
  Proof. reflexivity. Qed.

  Lemma step_result_blank rs cs cn cm ln hl h sql acc :
    step (mkP rs cs cn cm ln (ResultLines hl h sql acc)) [] =
    SNext (mkP (rs ++ [erec hl cs cn h sql acc None None]) [] (econn h cn) cm (ln + 1) Top).
  Proof.
    change (step (mkP rs cs cn cm ln (ResultLines hl h sql acc)) [])
      with (SNext (emit (mkP rs cs cn cm (ln + 1) (ResultLines hl h sql acc)) hl h sql acc None None)).
    rewrite emit_mk. reflexivity.
  Qed.

  Lemma step_result_line rs cs cn cm ln hl h sql acc l :
    l <> [] ->
    step (mkP rs cs cn cm ln (ResultLines hl h sql acc)) l =
    SNext (mkP rs cs cn cm (ln + 1) (ResultLines hl h sql (acc ++ [l]))).
  Proof. intros H. destruct l as [|c l]; [contradiction|]. reflexivity. Qed.

  Lemma step_multi_blank0 rs cs cn cm ln hl h sql acc :
    step (mkP rs cs cn cm ln (MultiLine hl h sql acc false)) [] =
    SNext (mkP rs cs cn cm (ln + 1) (MultiLine hl h sql acc true)).
  Proof. reflexivity. Qed.

  Lemma step_multi_blank1 rs cs cn cm ln hl h sql acc :
    step (mkP rs cs cn cm ln (MultiLine hl h sql acc true)) [] =
    SNext (mkP (rs ++ [erec hl cs cn h sql [] (multi_fe h (trim acc)) (multi_fo h (trim acc))])
               [] (econn h cn) cm (ln + 1) Top).
  Proof.
    change (step (mkP rs cs cn cm ln (MultiLine hl h sql acc true)) [])
      with (SNext (finish_multi (mkP rs cs cn cm (ln + 1) (MultiLine hl h sql acc true)) hl h sql acc)).
    rewrite finish_multi_mk. reflexivity.
  Qed.

  Lemma step_multi_line rs cs cn cm ln hl h sql acc pend l :
    l <> [] ->
    step (mkP rs cs cn cm ln (MultiLine hl h sql acc pend)) l =
    SNext (mkP rs cs cn cm (ln + 1)
               (MultiLine hl h sql ((if pend then acc ++ [10] else acc) ++ l ++ [10]) false)).
  Proof. intros H. destruct l as [|c l]; [contradiction|]. reflexivity. Qed.

  Lemma step_comment rs cs cn cm ln l :
    step (mkP rs cs cn cm ln Top) (35 :: l) = SNext (mkP rs cs cn (cm ++ [l]) (ln + 1) Top).
  Proof. reflexivity. Qed.

  Lemma step_top rs cs cn cm ln line :
    hd 0 line <> 35 ->
    step (mkP rs cs cn cm ln Top) line =
    top_line (mkP (vr rs cm) cs cn [] (ln + 1) Top) (ln + 1) line.
  Proof.
    intros H. rewrite <- flush_mk.
    destruct line as [|c l]; [reflexivity|]. cbn [hd] in H.
    destruct c as [|q]; [reflexivity|].
    do 6 (try (destruct q as [q|q|]; try reflexivity)). contradiction.
  Qed.

  (* -- loops *)
  Lemma ln_succ (ln : N) (k : nat) : ln + 1 + N.of_nat k = ln + N.of_nat (S k).
  Proof. rewrite Nat2N.inj_succ. lia. Qed.

  Lemma comment_run rs cs cn : forall ls cm ln,
    run_lines (mkP rs cs cn cm ln Top) (map (fun l => 35 :: l) ls) =
    SNext (mkP rs cs cn (cm ++ ls) (ln + N.of_nat (length ls)) Top).
  Proof.
    induction ls as [|l ls IH]; intros cm ln.
    - cbn [map Parser.run_lines length N.of_nat]. rewrite app_nil_r, N.add_0_r. reflexivity.
    - cbn [map Parser.run_lines length]. rewrite step_comment. rewrite IH.
      rewrite <- app_assoc. rewrite ln_succ. reflexivity.
  Qed.

  Lemma body_run rs cs cn cm hl h : forall ls pre ln,
    pre <> [] -> Forall (fun l => l <> [] /\ l <> DELIM) ls ->
    run_lines (mkP rs cs cn cm ln (Body hl h (join nl pre))) ls =
    SNext (mkP rs cs cn cm (ln + N.of_nat (length ls)) (Body hl h (join nl (pre ++ ls)))).
  Proof.
    induction ls as [|l ls IH]; intros pre ln Hpre Hls.
    - cbn [Parser.run_lines length N.of_nat]. rewrite app_nil_r, N.add_0_r. reflexivity.
    - inversion Hls as [|l' ls' [H1 H2] Hls']; subst.
      cbn [Parser.run_lines length]. rewrite step_body_line by assumption.
      change [10] with nl. rewrite <- join_snoc by assumption.
      rewrite IH; [|intros E; apply app_eq_nil in E as [_ E]; discriminate | assumption].
      rewrite <- app_assoc. rewrite ln_succ. reflexivity.
  Qed.

  Lemma front_run rs cs cn cm ln hl h sql :
    wf_block sql ->
    run_lines (mkP rs cs cn cm ln (First hl h)) sql =
    SNext (mkP rs cs cn cm (ln + N.of_nat (length sql)) (Body hl h (text_of sql))).
  Proof.
    intros (Hne & _ & Htl). destruct sql as [|l0 ls]; [contradiction|].
    cbn [tl] in Htl. cbn [Parser.run_lines length]. rewrite step_first.
    change l0 with (join nl [l0]) at 1.
    rewrite body_run; [|discriminate|assumption].
    rewrite ln_succ. reflexivity.
  Qed.

  Lemma result_run rs cs cn cm hl h sql : forall res acc ln,
    Forall (fun l => l <> []) res ->
    run_lines (mkP rs cs cn cm ln (ResultLines hl h sql acc)) res =
    SNext (mkP rs cs cn cm (ln + N.of_nat (length res)) (ResultLines hl h sql (acc ++ res))).
  Proof.
    induction res as [|l res IH]; intros acc ln Hres.
    - cbn [Parser.run_lines length N.of_nat]. rewrite app_nil_r, N.add_0_r. reflexivity.
    - inversion Hres as [|l' res' H1 Hres']; subst.
      cbn [Parser.run_lines length]. rewrite step_result_line by assumption.
      rewrite IH by assumption. rewrite <- app_assoc. rewrite ln_succ. reflexivity.
  Qed.

  Fixpoint nodbl (t : list str) : Prop :=
    match t with
    | a :: r => match r with b :: _ => ~ (a = [] /\ b = []) | [] => True end /\ nodbl r
    | [] => True
    end.

  Lemma nodbl_of_wf t :
    (forall a b u v, t = u ++ a :: b :: v -> ~ (a = [] /\ b = [])) -> nodbl t.
  Proof.
    induction t as [|a r IH]; intros H; [exact I|]. split.
    - destruct r as [|b r']; [exact I|]. apply (H a b [] r'). reflexivity.
    - apply IH. intros a' b' u v E. apply (H a' b' (a :: u) v). rewrite E. reflexivity.
  Qed.

  Lemma multi_run rs cs cn cm hl h sql : forall t acc pend ln,
    nodbl t -> last t [] <> [] -> (pend = true -> hd [] t <> []) ->
    run_lines (mkP rs cs cn cm ln (MultiLine hl h sql acc pend)) t =
    SNext (mkP rs cs cn cm (ln + N.of_nat (length t))
               (MultiLine hl h sql
                  (acc ++ (if pend then [10] else []) ++ flat_map (fun l => l ++ [10]) t) false)).
  Proof.
    induction t as [|l t IH]; intros acc pend ln Hnd Hlast Hpend.
    - exfalso. apply Hlast. reflexivity.
    - cbn [Parser.run_lines length]. destruct Hnd as [Hd Hnd].
      destruct l as [|c l].
      + (* an empty line inside the text *)
        destruct pend; [exfalso; apply Hpend; reflexivity|].
        rewrite step_multi_blank0.
        destruct t as [|b t]; [exfalso; apply Hlast; reflexivity|].
        rewrite IH; [| assumption | exact Hlast |].
        * rewrite ln_succ. cbn [flat_map app]. reflexivity.
        * intros _. cbn [hd]. intros E. apply Hd. split; [reflexivity | exact E].
      + rewrite step_multi_line by discriminate.
        destruct t as [|b t].
        * cbn [Parser.run_lines length flat_map]. rewrite app_nil_r.
          change (N.of_nat 1) with 1. destruct pend; rewrite <- ?app_assoc; reflexivity.
        * rewrite IH; [| assumption | exact Hlast | discriminate].
          rewrite ln_succ. cbn [flat_map].
          destruct pend; rewrite <- ?app_assoc; reflexivity.
  Qed.

  Lemma trim_text t :
    wf_multi t -> trim (flat_map (fun l => l ++ [10]) t) = text_of t.
  Proof.
    intros (Hne & _ & Hhd & Hhdne & (Hlne & Hlws) & _).
    rewrite flat_map_nl_join by assumption. unfold text_of, nl.
    apply trim_nl.
    - apply join_nonnil; assumption.
    - intros c Hc. rewrite join_hd in Hc by assumption. apply Hhd. exact Hc.
    - rewrite join_last by assumption. exact Hlws.
  Qed.

  (* -- "the lines were consumed, the file may end here with records R, and when the block
        is closed the machine is back in state pf" *)
  Definition post (res : sres) (R : list record) (closed : Prop) (pf : pstate) : Prop :=
    exists p', res = SNext p' /\ finish p' = POk R /\ (closed -> p' = pf).

  Lemma post_cons p l rest p1 R c pf :
    step p l = SNext p1 -> post (run_lines p1 rest) R c pf -> post (run_lines p (l :: rest)) R c pf.
  Proof. intros H1 H2. cbn [Parser.run_lines]. rewrite H1. exact H2. Qed.

  Lemma post_app p a b p1 R c pf :
    run_lines p a = SNext p1 -> post (run_lines p1 b) R c pf -> post (run_lines p (a ++ b)) R c pf.
  Proof. intros H1 H2. rewrite run_lines_app, H1. exact H2. Qed.

  Lemma post_conv res R R' (c c' : Prop) pf pf' :
    post res R c pf -> R = R' -> (c' -> c) -> (c' -> pf = pf') -> post res R' c' pf'.
  Proof.
    intros (p' & H1 & H2 & H3) -> Hc Hpf. exists p'. repeat split; try assumption.
    intros Hc'. rewrite <- (Hpf Hc'). apply H3. apply Hc. exact Hc'.
  Qed.

  Lemma post_top res R cs cn ln c :
    res = SNext (mkP R cs cn [] ln Top) -> post res R c (mkP R cs cn [] ln Top).
  Proof.
    intros ->. eexists; repeat split.
  Qed.

  Lemma finish_top R cs cn ln : finish (mkP R cs cn [] ln Top) = POk R.
  Proof. reflexivity. Qed.

  (* -- block endings, from the Body state *)
  Lemma tail_end rs cs cn ln hl h sql e :
    post (run_lines (mkP rs cs cn [] ln (Body hl h sql)) (end_lines e))
         (rs ++ [erec hl cs cn h sql [] None None]) (e = EndBlank)
         (mkP (rs ++ [erec hl cs cn h sql [] None None]) [] (econn h cn) [] (ln + 1) Top).
  Proof.
    destruct e; cbn [end_lines Parser.run_lines].
    - rewrite step_body_blank. apply post_top. reflexivity.
    - eexists; split; [reflexivity|split; [|discriminate]].
      change (finish (mkP rs cs cn [] ln (Body hl h sql)))
        with (POk (recs (emit (mkP rs cs cn [] ln (Body hl h sql)) hl h sql [] None None))).
      rewrite emit_mk. reflexivity.
  Qed.

  Lemma step_body_delim_res rs cs cn cm ln hl sql ty s lb x r :
    step (mkP rs cs cn cm ln (Body hl (HQuery (QResults ty s lb x) r) sql)) DELIM =
    SNext (mkP rs cs cn cm (ln + 1) (ResultLines hl (HQuery (QResults ty s lb x) r) sql [])).
  Proof. reflexivity. Qed.

  Lemma tail_res rs cs cn ln hl sql ty s lb x r res e :
    Forall (fun l => l <> []) res ->
    let h := HQuery (QResults ty s lb x) r in
    post (run_lines (mkP rs cs cn [] ln (Body hl h sql)) (DELIM :: res ++ end_lines e))
         (rs ++ [erec hl cs cn h sql res None None]) (e = EndBlank)
         (mkP (rs ++ [erec hl cs cn h sql res None None]) [] CDefault []
              (ln + 1 + N.of_nat (length res) + 1) Top).
  Proof.
    intros Hres h.
    eapply post_cons; [apply step_body_delim_res|].
    eapply post_app; [apply result_run; assumption|]. cbn [app].
    destruct e; cbn [end_lines Parser.run_lines].
    - rewrite step_result_blank. apply post_top. reflexivity.
    - eexists; split; [reflexivity|split; [|discriminate]].
      match goal with |- finish (mkP ?a ?b ?c ?d ?e (ResultLines ?hl ?h ?sql ?acc)) = _ =>
        change (finish (mkP a b c d e (ResultLines hl h sql acc)))
          with (POk (recs (emit (mkP a b c d e (ResultLines hl h sql acc)) hl h sql acc None None)))
      end.
      rewrite emit_mk. reflexivity.
  Qed.

  Definition is_multi_hdr (h : hdr) : bool :=
    match h with
    | HStatement (SError EEmpty) _ | HQuery (QError EEmpty) _ | HSystem _ => true
    | _ => false
    end.

  Lemma on_delimiter_multi p hl h sql :
    is_multi_hdr h = true ->
    on_delimiter p hl h sql = SNext (set_mode p (MultiLine hl h sql [] false)).
  Proof.
    destruct h as [[| |[]] r|[|[]] r|r]; cbn [is_multi_hdr]; intros H;
      try discriminate; reflexivity.
  Qed.

  Lemma step_body_delim_multi rs cs cn cm ln hl h sql :
    is_multi_hdr h = true ->
    step (mkP rs cs cn cm ln (Body hl h sql)) DELIM =
    SNext (mkP rs cs cn cm (ln + 1) (MultiLine hl h sql [] false)).
  Proof.
    intros H. rewrite step_body_delim, on_delimiter_multi by assumption. reflexivity.
  Qed.

  Lemma tail_multi rs cs cn ln hl h sql t me :
    is_multi_hdr h = true -> wf_multi t ->
    let R := rs ++ [erec hl cs cn h sql [] (multi_fe h (text_of t)) (multi_fo h (text_of t))] in
    post (run_lines (mkP rs cs cn [] ln (Body hl h sql)) (multi_lines t me))
         R (me = MEndDouble)
         (mkP R [] (econn h cn) [] (ln + 1 + N.of_nat (length t) + 2) Top).
  Proof.
    intros Hh Hwf R. unfold multi_lines.
    eapply post_cons; [apply step_body_delim_multi; assumption|].
    assert (Hrun := Hwf). destruct Hrun as (Hne & _ & _ & _ & (Hlne & _) & Hnd).
    eapply post_app.
    { apply multi_run; [apply nodbl_of_wf; exact Hnd | exact Hlne | discriminate]. }
    cbn [app]. subst R. rewrite <- (trim_text t Hwf).
    destruct me; cbn [mend_lines Parser.run_lines].
    - rewrite step_multi_blank0, step_multi_blank1. apply post_top.
      do 2 f_equal. lia.
    - rewrite step_multi_blank0. eexists; split; [reflexivity|split; [|discriminate]].
      match goal with |- finish (mkP ?a ?b ?c ?d ?e (MultiLine ?hl ?h ?sql ?acc ?pd)) = _ =>
        change (finish (mkP a b c d e (MultiLine hl h sql acc pd)))
          with (POk (recs (finish_multi (mkP a b c d e (MultiLine hl h sql acc pd)) hl h sql acc)))
      end.
      rewrite finish_multi_mk. reflexivity.
    - eexists; split; [reflexivity|split; [|discriminate]].
      match goal with |- finish (mkP ?a ?b ?c ?d ?e (MultiLine ?hl ?h ?sql ?acc ?pd)) = _ =>
        change (finish (mkP a b c d e (MultiLine hl h sql acc pd)))
          with (POk (recs (finish_multi (mkP a b c d e (MultiLine hl h sql acc pd)) hl h sql acc)))
      end.
      rewrite finish_multi_mk. reflexivity.
  Qed.

  (* -- top-level lines, by their words *)
  Ltac top_kw H :=
    unfold Parser.top_line;
    match type of H with
    | split_ws ?line = _ => destruct line; [discriminate H|]; rewrite H; reflexivity
    end.

  Lemma top_line_nil P n : top_line P n [] = SNext (push P RNewline).
  Proof. reflexivity. Qed.

  Lemma top_line_space P n line :
    line <> [] -> split_ws line = [] -> top_line P n line = SNext P.
  Proof.
    intros Hne H. unfold Parser.top_line. destruct line; [contradiction|]. rewrite H. reflexivity.
  Qed.

  Lemma top_line_include P n line f :
    split_ws line = [lit "include"; f] -> top_line P n line = SNext (push P (RInclude (mkloc n) f)).
  Proof. intros H. top_kw H. Qed.

  Lemma top_line_halt P n line :
    split_ws line = [lit "halt"] -> top_line P n line = SNext (push P (RHalt (mkloc n))).
  Proof. intros H. top_kw H. Qed.

  Lemma top_line_subtest P n line x :
    split_ws line = [lit "subtest"; x] -> top_line P n line = SNext (push P (RSubtest (mkloc n) x)).
  Proof. intros H. top_kw H. Qed.

  Lemma top_line_sleep P n line d :
    split_ws line = [lit "sleep"; d] ->
    top_line P n line = match parse_duration d with
                        | DOk ns => SNext (push P (RSleep (mkloc n) ns))
                        | DBad => SFail PInvalidDuration n
                        | DPanic => SPanic
                        end.
  Proof. intros H. top_kw H. Qed.

  Lemma top_line_cond P n line c :
    split_ws line = cond_words c ->
    top_line P n line =
    SNext (mkP (recs P ++ [RCondition c]) (pconds P ++ [c]) (pconn P) (pcomments P) (lineno P) Top).
  Proof. intros H. destruct c; cbn [cond_words] in H; top_kw H. Qed.

  Lemma top_line_connection P n line x :
    split_ws line = [lit "connection"; x] ->
    top_line P n line =
    SNext (mkP (recs P ++ [RConnection (conn_of_name x)]) (pconds P) (conn_of_name x)
               (pcomments P) (lineno P) Top).
  Proof. intros H. top_kw H. Qed.

  Lemma top_line_control P n line c :
    split_ws line = control_words c -> top_line P n line = SNext (push P (RControl c)).
  Proof.
    intros H. destruct c as [[]|[]|[]]; cbn [control_words sort_word] in H; top_kw H.
  Qed.

  Lemma top_line_threshold P n line x :
    split_ws line = [lit "hash-threshold"; x] ->
    top_line P n line = match parse_u64 x with
                        | Some v => SNext (push P (RHashThreshold (mkloc n) v))
                        | None => SFail PInvalidNumber n
                        end.
  Proof. intros H. top_kw H. Qed.

  Lemma top_line_statement P n line args :
    split_ws line = lit "statement" :: args ->
    top_line P n line = match parse_statement_header re args with
                        | HOk h => SNext (set_mode P (First n h))
                        | HErr k => SFail k n
                        | HPanic => SPanic
                        end.
  Proof. intros H. top_kw H. Qed.

  Lemma top_line_query P n line args :
    split_ws line = lit "query" :: args ->
    top_line P n line = match parse_query_header col re args with
                        | HOk h => SNext (set_mode P (First n h))
                        | HErr k => SFail k n
                        | HPanic => SPanic
                        end.
  Proof. intros H. top_kw H. Qed.

  Lemma top_line_system P n line rest :
    split_ws line = lit "system" :: lit "ok" :: rest ->
    top_line P n line = match parse_retry rest with
                        | HOk r => SNext (set_mode P (First n (HSystem r)))
                        | HErr k => SFail k n
                        | HPanic => SPanic
                        end.
  Proof. intros H. top_kw H. Qed.

  Lemma nohash_split line k args :
    split_ws line = k :: args -> hd 0 k <> 35 -> hd 0 line <> 35.
  Proof.
    intros H Hk. destruct line as [|c l]; [cbn; discriminate|]. cbn [hd]. intros ->.
    unfold split_ws in H. cbn [split_aux] in H.
    change (is_ws 35) with false in H. cbv iota in H.
    apply split_aux_first in H; [|discriminate]. destruct H as [t' ->].
    apply Hk. reflexivity.
  Qed.

  Lemma nohash_blank ws : blank ws -> hd 0 ws <> 35.
  Proof.
    intros H. destruct ws as [|c l]; [cbn; discriminate|]. cbn [hd]. intros ->.
    inversion H as [|c' l' [Hc _] _]; subst. discriminate Hc.
  Qed.

  (* ---------------------------------------------------------------- *)
  (* 4. one item                                                       *)

  Notation elab_item := (Render.elab_item file upper).

  Definition pfin_of (rs : list record) (cm : list str) (st : estate) (i : item) : pstate :=
    let st' := snd (elab_item st i) in
    match i with
    | IComment ls => mkP rs (e_conds st') (e_conn st') ls (e_line st') Top
    | _ => mkP (vr rs cm ++ fst (elab_item st i)) (e_conds st') (e_conn st') [] (e_line st') Top
    end.

  Lemma single_post rs cs cn cm ln line R cs' cn' (c : Prop) :
    hd 0 line <> 35 ->
    top_line (mkP (vr rs cm) cs cn [] (ln + 1) Top) (ln + 1) line = SNext (mkP R cs' cn' [] (ln + 1) Top) ->
    post (run_lines (mkP rs cs cn cm ln Top) [line]) R c (mkP R cs' cn' [] (ln + 1) Top).
  Proof.
    intros H1 H2. apply post_top. cbn [Parser.run_lines]. rewrite step_top by assumption.
    rewrite H2. reflexivity.
  Qed.

  Lemma mkP_eq R R' cs cs' cn cn' (ln ln' : N) :
    R = R' -> cs = cs' -> cn = cn' -> ln = ln' ->
    mkP R cs cn [] ln Top = mkP R' cs' cn' [] ln' Top.
  Proof. intros; subst; reflexivity. Qed.

  Ltac toks_tac :=
    repeat (apply Forall_cons || apply Forall_nil);
    first [assumption | apply dec_token | apply sort_word_token | tok_lit].

  Lemma sform_words_token f r : wf_sform re f r -> Forall token (sform_words f).
  Proof.
    destruct f as [|n| |ws|t]; cbn [sform_words wf_sform]; intros H; try toks_tac.
    destruct H as [(_ & Hws & _) _].
    apply Forall_cons; [tok_lit|]. apply Forall_cons; [tok_lit|]. exact Hws.
  Qed.

  Lemma qform_words_token f r : wf_qform col re f r -> Forall token (qform_words f).
  Proof.
    destruct f as [tw types s lb has res| |ws|t]; cbn [qform_words wf_qform]; intros H; try toks_tac.
    - destruct H as (Htw & _ & _ & Hlb & _).
      apply Forall_cons; [tok_lit|]. apply Forall_cons; [exact Htw|].
      apply Forall_app. split.
      + destruct s; toks_tac.
      + destruct lb as [l|]; [|constructor]. destruct Hlb as [Hl _]. toks_tac.
    - destruct H as [(_ & Hws & _) _].
      apply Forall_cons; [tok_lit|]. apply Forall_cons; [tok_lit|]. exact Hws.
  Qed.

  (* the header line of a statement / query / system block *)
  Lemma header_step rs cs cn cm ln line k args X :
    split_ws line = k :: args -> hd 0 k <> 35 ->
    top_line (mkP (vr rs cm) cs cn [] (ln + 1) Top) (ln + 1) line = X ->
    step (mkP rs cs cn cm ln Top) line = X.
  Proof.
    intros Hs Hhash Htop.
    rewrite step_top; [exact Htop|]. eapply nohash_split; [exact Hs | exact Hhash].
  Qed.

  Ltac ln_solve :=
    unfold set_mode, multi_lines; cbn [lineno length mend_lines end_lines];
    repeat (rewrite app_length; cbn [length mend_lines end_lines]); lia.

  Lemma item_run lastp i rs cm st :
    wf_item col re lastp i -> (cm <> [] -> is_comment i = false) ->
    post (run_lines (mkP rs (e_conds st) (e_conn st) cm (e_line st) Top) (render_item i))
         (vr rs cm ++ fst (elab_item st i)) (lastp = false) (pfin_of rs cm st i).
  Proof.
    destruct st as [cs cn ln]. cbn [e_conds e_conn e_line].
    intros Hwf Hcm.
    destruct i as [ls| |ws|h f|h|h x|h d ns|h c|h x|h c|h v|h f r sql e me|h f r sql e me|h r cmd out e me];
      cbn [wf_item] in Hwf; cbn [render_item].
    - (* comment *)
      destruct cm as [|c0 cm]; [|exfalso; specialize (Hcm ltac:(discriminate)); discriminate Hcm].
      destruct Hwf as [Hne _].
      exists (mkP rs cs cn ls (ln + N.of_nat (length ls)) Top). split; [|split].
      + rewrite comment_run. reflexivity.
      + cbn. unfold vr. destruct ls as [|l ls]; [contradiction|].
        rewrite app_nil_r. reflexivity.
      + intros _. unfold pfin_of. cbn [elab_item snd e_conds e_conn e_line render_item].
        rewrite map_length. reflexivity.
    - (* blank line *)
      eapply post_conv; [apply single_post; [cbn; discriminate | rewrite top_line_nil; reflexivity]
                        | reflexivity | exact (fun Hx => Hx) | reflexivity].
    - (* blank characters only *)
      destruct Hwf as (Hne & Hb & _).
      eapply post_conv; [apply single_post;
                          [apply nohash_blank; exact Hb
                          | rewrite top_line_space; [reflexivity | exact Hne | apply split_ws_blank; exact Hb]]
                        | | exact (fun Hx => Hx) | ].
      + cbn [elab_item fst]. rewrite app_nil_r. reflexivity.
      + intros _. unfold pfin_of. cbn [elab_item fst snd e_conds e_conn e_line].
        rewrite app_nil_r. reflexivity.
    - (* include *)
      destruct Hwf as [Hh Hf].
      assert (Hs : split_ws (header h [lit "include"; f]) = [lit "include"; f])
        by (eapply split_ws_header; [exact Hh | discriminate | toks_tac]).
      eapply post_conv; [apply single_post;
                          [eapply nohash_split; [exact Hs | vm_compute; discriminate]
                          | rewrite (top_line_include _ _ _ _ Hs); reflexivity]
                        | reflexivity | exact (fun Hx => Hx) | reflexivity].
    - (* halt *)
      assert (Hs : split_ws (header h [lit "halt"]) = [lit "halt"])
        by (eapply split_ws_header; [exact Hwf | discriminate | toks_tac]).
      eapply post_conv; [apply single_post;
                          [eapply nohash_split; [exact Hs | vm_compute; discriminate]
                          | rewrite (top_line_halt _ _ _ Hs); reflexivity]
                        | reflexivity | exact (fun Hx => Hx) | reflexivity].
    - (* subtest *)
      destruct Hwf as [Hh Hf].
      assert (Hs : split_ws (header h [lit "subtest"; x]) = [lit "subtest"; x])
        by (eapply split_ws_header; [exact Hh | discriminate | toks_tac]).
      eapply post_conv; [apply single_post;
                          [eapply nohash_split; [exact Hs | vm_compute; discriminate]
                          | rewrite (top_line_subtest _ _ _ _ Hs); reflexivity]
                        | reflexivity | exact (fun Hx => Hx) | reflexivity].
    - (* sleep *)
      destruct Hwf as (Hh & Hf & Hd).
      assert (Hs : split_ws (header h [lit "sleep"; d]) = [lit "sleep"; d])
        by (eapply split_ws_header; [exact Hh | discriminate | toks_tac]).
      eapply post_conv; [apply single_post;
                          [eapply nohash_split; [exact Hs | vm_compute; discriminate]
                          | rewrite (top_line_sleep _ _ _ _ Hs), Hd; reflexivity]
                        | reflexivity | exact (fun Hx => Hx) | reflexivity].
    - (* skipif / onlyif *)
      destruct Hwf as [Hh Hf].
      assert (Hs : split_ws (header h (cond_words c)) = cond_words c)
        by (eapply split_ws_header; [exact Hh | destruct c; discriminate | destruct c; cbn [cond_words]; toks_tac]).
      eapply post_conv; [apply single_post;
                          [destruct c; (eapply nohash_split; [exact Hs | vm_compute; discriminate])
                          | rewrite (top_line_cond _ _ _ _ Hs); reflexivity]
                        | reflexivity | exact (fun Hx => Hx) | reflexivity].
    - (* connection *)
      destruct Hwf as [Hh Hf].
      assert (Hs : split_ws (header h [lit "connection"; x]) = [lit "connection"; x])
        by (eapply split_ws_header; [exact Hh | discriminate | toks_tac]).
      eapply post_conv; [apply single_post;
                          [eapply nohash_split; [exact Hs | vm_compute; discriminate]
                          | rewrite (top_line_connection _ _ _ _ Hs); reflexivity]
                        | reflexivity | exact (fun Hx => Hx) | reflexivity].
    - (* control *)
      assert (Hs : split_ws (header h (control_words c)) = control_words c)
        by (eapply split_ws_header;
            [exact Hwf | destruct c as [[]|[]|[]]; discriminate | apply control_words_token]).
      eapply post_conv; [apply single_post;
                          [destruct c as [[]|[]|[]]; (eapply nohash_split; [exact Hs | vm_compute; discriminate])
                          | rewrite (top_line_control _ _ _ _ Hs); reflexivity]
                        | reflexivity | exact (fun Hx => Hx) | reflexivity].
    - (* hash-threshold *)
      destruct Hwf as [Hh Hv].
      assert (Hs : split_ws (header h [lit "hash-threshold"; dec v]) = [lit "hash-threshold"; dec v])
        by (eapply split_ws_header; [exact Hh | discriminate | toks_tac]).
      eapply post_conv; [apply single_post;
                          [eapply nohash_split; [exact Hs | vm_compute; discriminate]
                          | rewrite (top_line_threshold _ _ _ _ Hs), parse_u64_dec by exact Hv; reflexivity]
                        | reflexivity | exact (fun Hx => Hx) | reflexivity].
    - (* statement *)
      destruct Hwf as (Hh & Hf & Hr & Hsql & Hlast).
      assert (Hk : sform_words f ++ retry_words r = lit "statement" :: tl (sform_words f ++ retry_words r))
        by (destruct f; reflexivity).
      assert (Htok : Forall token (sform_words f ++ retry_words r))
        by (apply Forall_app; split; [eapply sform_words_token; exact Hf | apply retry_words_token; exact Hr]).
      assert (Hs : split_ws (header h (sform_words f ++ retry_words r)) =
                   lit "statement" :: tl (sform_words f ++ retry_words r))
        by (rewrite <- Hk; eapply split_ws_header; [exact Hh | rewrite Hk; discriminate | exact Htok]).
      eapply post_cons.
      { eapply header_step; [exact Hs | vm_compute; discriminate |].
        rewrite (top_line_statement _ _ _ _ Hs).
        rewrite parse_statement_header_words by assumption. reflexivity. }
      eapply post_app; [apply front_run; exact Hsql|].
      destruct f as [|n| |ws|t]; cbn [shdr_expect sform_expect].
      5: { eapply post_conv; [apply tail_multi; [reflexivity | exact Hf] | reflexivity
                             | intros Hl; destruct (Hlast Hl); assumption |].
           intros Hl; destruct (Hlast Hl) as [_ ->]. unfold pfin_of.
           cbn [elab_item fst snd e_conds e_conn e_line render_item multi_lines mend_lines].
           apply mkP_eq; try reflexivity. ln_solve. }
      all: (eapply post_conv; [apply tail_end | reflexivity
                              | intros Hl; destruct (Hlast Hl); assumption |];
            intros Hl; destruct (Hlast Hl) as [-> _]; unfold pfin_of;
            cbn [elab_item fst snd e_conds e_conn e_line render_item end_lines];
            apply mkP_eq; try reflexivity; ln_solve).
    - (* query *)
      destruct Hwf as (Hh & Hf & Hr & Hsql & Hlast).
      assert (Hk : qform_words f ++ retry_words r = lit "query" :: tl (qform_words f ++ retry_words r))
        by (destruct f; reflexivity).
      assert (Htok : Forall token (qform_words f ++ retry_words r))
        by (apply Forall_app; split; [eapply qform_words_token; exact Hf | apply retry_words_token; exact Hr]).
      assert (Hs : split_ws (header h (qform_words f ++ retry_words r)) =
                   lit "query" :: tl (qform_words f ++ retry_words r))
        by (rewrite <- Hk; eapply split_ws_header; [exact Hh | rewrite Hk; discriminate | exact Htok]).
      eapply post_cons.
      { eapply header_step; [exact Hs | vm_compute; discriminate |].
        rewrite (top_line_query _ _ _ _ Hs).
        rewrite parse_query_header_words by assumption. reflexivity. }
      eapply post_app; [apply front_run; exact Hsql|].
      destruct f as [tw types s lb has res| |ws|t]; cbn [qhdr_expect qform_expect].
      4: { eapply post_conv; [apply tail_multi; [reflexivity | exact Hf] | reflexivity
                             | intros Hl; destruct (Hlast Hl); assumption |].
           intros Hl; destruct (Hlast Hl) as [_ ->]. unfold pfin_of.
           cbn [elab_item fst snd e_conds e_conn e_line render_item multi_lines mend_lines].
           apply mkP_eq; try reflexivity. ln_solve. }
      1: destruct has.
      1: { destruct Hf as (_ & _ & _ & _ & _ & Hres).
           eapply post_conv; [apply tail_res | reflexivity
                             | intros Hl; destruct (Hlast Hl); assumption |].
           - eapply Forall_impl; [|exact Hres]. intros l [_ Hl]. exact Hl.
           - intros Hl; destruct (Hlast Hl) as [-> _]. unfold pfin_of.
             cbn [elab_item fst snd e_conds e_conn e_line render_item end_lines].
             apply mkP_eq; try reflexivity. ln_solve. }
      all: (eapply post_conv; [apply tail_end | reflexivity
                              | intros Hl; destruct (Hlast Hl); assumption |];
            intros Hl; destruct (Hlast Hl) as [-> _]; unfold pfin_of;
            cbn [elab_item fst snd e_conds e_conn e_line render_item end_lines];
            apply mkP_eq; try reflexivity; ln_solve).
    - (* system *)
      destruct Hwf as (Hh & Hr & Hcmd & Hout & Hlast).
      assert (Htok : Forall token ([lit "system"; lit "ok"] ++ retry_words r))
        by (apply Forall_app; split; [toks_tac | apply retry_words_token; exact Hr]).
      assert (Hs : split_ws (header h ([lit "system"; lit "ok"] ++ retry_words r)) =
                   lit "system" :: lit "ok" :: retry_words r)
        by (eapply split_ws_header; [exact Hh | discriminate | exact Htok]).
      eapply post_cons.
      { eapply header_step; [exact Hs | vm_compute; discriminate |].
        rewrite (top_line_system _ _ _ _ Hs).
        rewrite parse_retry_words by assumption. reflexivity. }
      eapply post_app; [apply front_run; exact Hcmd|].
      destruct out as [t|].
      + eapply post_conv; [apply tail_multi; [reflexivity | exact Hout] | reflexivity
                          | intros Hl; destruct (Hlast Hl); assumption |].
        intros Hl; destruct (Hlast Hl) as [_ ->]. unfold pfin_of.
        cbn [elab_item fst snd e_conds e_conn e_line render_item multi_lines mend_lines].
        apply mkP_eq; try reflexivity. ln_solve.
      + eapply post_conv; [apply tail_end | reflexivity
                          | intros Hl; destruct (Hlast Hl); assumption |].
        intros Hl; destruct (Hlast Hl) as [-> _]. unfold pfin_of.
        cbn [elab_item fst snd e_conds e_conn e_line render_item end_lines].
        apply mkP_eq; try reflexivity. ln_solve.
  Qed.

  (* ---------------------------------------------------------------- *)
  (* 5. the whole script                                               *)

  Notation elab_from := (Render.elab_from file upper).

  Definition complete (p : pstate) (ls : list str) : presult :=
    match run_lines p ls with
    | SNext p' => finish p'
    | SFail k n => PErr k n
    | SPanic => PPanic
    end.

  Lemma pfin_of_plain rs cm st i :
    is_comment i = false ->
    pfin_of rs cm st i =
    mkP (vr rs cm ++ fst (elab_item st i)) (e_conds (snd (elab_item st i)))
        (e_conn (snd (elab_item st i))) [] (e_line (snd (elab_item st i))) Top.
  Proof. destruct i; intros H; try discriminate H; reflexivity. Qed.

  Lemma script_run : forall a rs cm st,
    wf_script col re a ->
    (cm <> [] -> match a with j :: _ => is_comment j = false | [] => True end) ->
    complete (mkP rs (e_conds st) (e_conn st) cm (e_line st) Top) (render_lines a) =
    POk (vr rs cm ++ elab_from st a).
  Proof.
    induction a as [|i r IH]; intros rs cm st Hwf Hcm.
    - unfold complete. cbn [render_lines flat_map Parser.run_lines Render.elab_from].
      rewrite app_nil_r.
      change (finish (mkP rs (e_conds st) (e_conn st) cm (e_line st) Top))
        with (POk (recs (flush_comments (mkP rs (e_conds st) (e_conn st) cm (e_line st) Top)))).
      rewrite flush_mk. reflexivity.
    - cbn [wf_script] in Hwf. destruct Hwf as (Hi & Hadj & Hr).
      destruct (item_run _ i rs cm st Hi Hcm) as (p' & Hrun & Hfin & Hclosed).
      unfold complete, render_lines. cbn [flat_map]. rewrite run_lines_app, Hrun.
      cbn [Render.elab_from].
      destruct (elab_item st i) as [R st'] eqn:E. cbn [fst] in Hfin.
      destruct r as [|j r'].
      + cbn [flat_map Parser.run_lines Render.elab_from]. rewrite Hfin, app_nil_r. reflexivity.
      + specialize (Hclosed eq_refl). subst p'.
        destruct (is_comment i) eqn:Hic.
        * destruct i; try discriminate Hic.
          destruct cm as [|c0 cm]; [|exfalso; specialize (Hcm ltac:(discriminate)); discriminate Hcm].
          unfold pfin_of. rewrite E. cbn [snd].
          cbn [Render.elab_item] in E. inversion E; subst R. clear E.
          cbn [wf_item] in Hi. destruct Hi as [Hne _].
          match goal with |- context [mkP rs (e_conds ?s) (e_conn ?s) ls (e_line ?s) Top] =>
            pose proof (IH rs ls s Hr) as IH'
          end.
          unfold complete, render_lines in IH'. rewrite IH'.
          -- unfold vr. destruct ls as [|l ls]; [contradiction|].
             rewrite app_nil_r, <- app_assoc. reflexivity.
          -- intros _. apply Hadj. reflexivity.
        * rewrite pfin_of_plain by exact Hic. rewrite E. cbn [fst snd].
          pose proof (IH (vr rs cm ++ R) [] st' Hr) as IH'.
          unfold complete, render_lines in IH'. rewrite IH'.
          -- unfold vr at 1. rewrite app_nil_r, <- app_assoc. reflexivity.
          -- intros Hx. contradiction.
  Qed.

  Lemma roundtrip_lines_sec (a : list item) :
    wf_script col re a ->
    parse_lines_list col re file upper (render_lines a) = POk (elab file upper a).
  Proof.
    intros Hwf.
    pose proof (script_run a [] [] (mkE [] CDefault 0) Hwf ltac:(intros Hx; contradiction)) as H.
    exact H.
  Qed.
End Machine.

(* ------------------------------------------------------------------ *)
(* 6. from lines to text                                               *)

Lemma lines_unlines_gen : forall (ls : list str) (eols : list bool) (final : bool),
  Forall line_ok ls -> (final = false -> last ls [] <> []) ->
  lines (unlines ls eols final) = ls.
Proof.
  induction ls as [|l r IH]; intros eols final Hok Hlast; [reflexivity|].
  inversion Hok as [|l' r' [Hlf Hcr] Hr]; subst.
  destruct r as [|l2 r].
  - cbn [unlines]. destruct final.
    + destruct (hd false eols); cbn [eol].
      * change (l ++ [13; 10]) with (l ++ [13; 10] ++ []).
        rewrite lines_line_crlf by assumption. reflexivity.
      * change (l ++ [10]) with (l ++ [10] ++ []).
        rewrite lines_line_lf by assumption. reflexivity.
    + rewrite app_nil_r. apply lines_last_nonempty; [assumption|].
      apply (Hlast eq_refl).
  - change (unlines (l :: l2 :: r) eols final)
      with (l ++ eol (hd false eols) ++ unlines (l2 :: r) (tl eols) final).
    destruct (hd false eols); cbn [eol].
    + rewrite lines_line_crlf by assumption. f_equal. apply IH; assumption.
    + rewrite lines_line_lf by assumption. f_equal. apply IH; assumption.
Qed.

(* every rendered line is a proper line *)
Definition okc (c : N) : Prop := c <> 10 /\ c <> 13.

Lemma last_In {A} (l : list A) d : l <> [] -> In (last l d) l.
Proof.
  induction l as [|x l IH]; intros H; [contradiction|].
  destruct l as [|y l]; [left; reflexivity|]. right. apply IH. discriminate.
Qed.

Lemma okc_line_ok l : Forall okc l -> line_ok l.
Proof.
  intros H. rewrite Forall_forall in H. split.
  - intros Hin. apply H in Hin. destruct Hin as [Hc _]. apply Hc. reflexivity.
  - destruct l as [|c l]; [cbn; discriminate|].
    intros E. assert (Hin : In (last (c :: l) 0) (c :: l)) by (apply last_In; discriminate).
    apply H in Hin. destruct Hin as [_ Hc]. apply Hc. exact E.
Qed.

Lemma blank_okc b : blank b -> Forall okc b.
Proof. intros H. eapply Forall_impl; [|exact H]. intros c (_ & H1 & H2). split; assumption. Qed.

Lemma token_okc t : token t -> Forall okc t.
Proof.
  intros [_ H]. eapply Forall_impl; [|exact H]. intros c Hc.
  split; intros ->; discriminate Hc.
Qed.

Lemma weave_okc : forall toks seps,
  Forall token toks -> Forall (fun b => blank b /\ b <> []) seps -> Forall okc (weave toks seps).
Proof.
  induction toks as [|t ts IH]; intros seps Htok Hseps; [constructor|].
  inversion Htok as [|t' ts' Ht Hts]; subst.
  destruct ts as [|t2 ts].
  - cbn [weave]. apply token_okc; assumption.
  - change (weave (t :: t2 :: ts) seps) with (t ++ hd [32] seps ++ weave (t2 :: ts) (tl seps)).
    destruct (sep_default seps Hseps) as [Hb _].
    apply Forall_app. split; [apply token_okc; assumption|].
    apply Forall_app. split; [apply blank_okc; assumption|].
    apply IH; [assumption|].
    destruct seps as [|s seps]; [constructor|]. inversion Hseps; subst; assumption.
Qed.

Lemma header_line_ok n h toks : wf_hlay n h -> Forall token toks -> line_ok (header h toks).
Proof.
  intros (Hl & Ht & _ & Hs) Htok. apply okc_line_ok. unfold header.
  apply Forall_app. split; [apply blank_okc; assumption|].
  apply Forall_app. split; [apply weave_okc; assumption | apply blank_okc; assumption].
Qed.

Lemma line_ok_nil : line_ok [].
Proof. split; [intros H; exact H | cbn; discriminate]. Qed.

Lemma line_ok_delim : line_ok DELIM.
Proof. apply okc_line_ok. vm_compute. repeat constructor; discriminate. Qed.

Lemma line_ok_comment l : line_ok l -> line_ok (35 :: l).
Proof.
  intros [H1 H2]. split.
  - intros [E|E]; [discriminate E | exact (H1 E)].
  - destruct l as [|c l]; [cbn; discriminate | exact H2].
Qed.

Section LinesOk.
  Variable col : N -> option N.
  Variable re : str -> bool.

  Ltac toks_tac :=
    repeat (apply Forall_cons || apply Forall_nil);
    first [assumption | apply dec_token | apply sort_word_token | tok_lit].

  Lemma end_lines_ok e : Forall line_ok (end_lines e).
  Proof. destruct e; cbn [end_lines]; repeat (apply Forall_cons || apply Forall_nil); apply line_ok_nil. Qed.

  Lemma multi_lines_ok t me : wf_multi t -> Forall line_ok (multi_lines t me).
  Proof.
    intros (_ & Ht & _). unfold multi_lines. apply Forall_cons; [apply line_ok_delim|].
    apply Forall_app. split; [exact Ht|].
    destruct me; cbn [mend_lines]; repeat (apply Forall_cons || apply Forall_nil); apply line_ok_nil.
  Qed.

  Lemma render_item_ok lastp i : wf_item col re lastp i -> Forall line_ok (render_item i).
  Proof.
    destruct i as [ls| |ws|h f|h|h x|h d ns|h c|h x|h c|h v|h f r sql e me|h f r sql e me|h r cmd out e me];
      cbn [wf_item render_item]; intros Hwf.
    - destruct Hwf as [_ Hls]. apply Forall_forall. intros x Hx.
      apply in_map_iff in Hx as (l & <- & Hl). apply line_ok_comment.
      rewrite Forall_forall in Hls. apply Hls. exact Hl.
    - apply Forall_cons; [|apply Forall_nil]. apply line_ok_nil.
    - destruct Hwf as (_ & _ & H). apply Forall_cons; [|apply Forall_nil]. exact H.
    - destruct Hwf as [Hh Hf]. apply Forall_cons; [|apply Forall_nil]. eapply header_line_ok; [exact Hh | toks_tac].
    - apply Forall_cons; [|apply Forall_nil]. eapply header_line_ok; [exact Hwf | toks_tac].
    - destruct Hwf as [Hh Hf]. apply Forall_cons; [|apply Forall_nil]. eapply header_line_ok; [exact Hh | toks_tac].
    - destruct Hwf as (Hh & Hf & _). apply Forall_cons; [|apply Forall_nil]. eapply header_line_ok; [exact Hh | toks_tac].
    - destruct Hwf as [Hh Hf]. apply Forall_cons; [|apply Forall_nil].
      eapply header_line_ok; [exact Hh | destruct c; cbn [cond_words]; toks_tac].
    - destruct Hwf as [Hh Hf]. apply Forall_cons; [|apply Forall_nil]. eapply header_line_ok; [exact Hh | toks_tac].
    - apply Forall_cons; [|apply Forall_nil]. eapply header_line_ok; [exact Hwf | apply control_words_token].
    - destruct Hwf as [Hh Hf]. apply Forall_cons; [|apply Forall_nil]. eapply header_line_ok; [exact Hh | toks_tac].
    - destruct Hwf as (Hh & Hf & Hr & (_ & Hsql & _) & _).
      apply Forall_cons.
      + eapply header_line_ok; [exact Hh|]. apply Forall_app. split;
          [eapply sform_words_token; exact Hf | apply retry_words_token; exact Hr].
      + apply Forall_app. split; [exact Hsql|].
        destruct f; try apply end_lines_ok. apply multi_lines_ok. exact Hf.
    - destruct Hwf as (Hh & Hf & Hr & (_ & Hsql & _) & _).
      apply Forall_cons.
      + eapply header_line_ok; [exact Hh|]. apply Forall_app. split;
          [eapply qform_words_token; exact Hf | apply retry_words_token; exact Hr].
      + apply Forall_app. split; [exact Hsql|].
        destruct f as [tw types s lb has res| |ws|t]; try apply end_lines_ok.
        * destruct has; [|apply end_lines_ok].
          destruct Hf as (_ & _ & _ & _ & _ & Hres).
          apply Forall_cons; [apply line_ok_delim|]. apply Forall_app. split; [|apply end_lines_ok].
          eapply Forall_impl; [|exact Hres]. intros l [Hl _]. exact Hl.
        * apply multi_lines_ok. exact Hf.
    - destruct Hwf as (Hh & Hr & (_ & Hcmd & _) & Hout & _).
      apply Forall_cons.
      + eapply header_line_ok; [exact Hh|]. apply Forall_app. split;
          [toks_tac | apply retry_words_token; exact Hr].
      + apply Forall_app. split; [exact Hcmd|].
        destruct out as [t|]; [apply multi_lines_ok; exact Hout | apply end_lines_ok].
  Qed.

  Lemma render_lines_ok a : wf_script col re a -> Forall line_ok (render_lines a).
  Proof.
    induction a as [|i r IH]; intros Hwf; [constructor|].
    cbn [wf_script] in Hwf. destruct Hwf as (Hi & _ & Hr).
    unfold render_lines. cbn [flat_map]. apply Forall_app. split.
    - eapply render_item_ok. exact Hi.
    - apply IH. exact Hr.
  Qed.
End LinesOk.

(* ------------------------------------------------------------------ *)
(* 7. C03                                                              *)

Theorem roundtrip_lines :
  forall col re file upper (a : list item),
    wf_script col re a ->
    parse_lines_list col re file upper (render_lines a) = POk (elab file upper a).
Proof. intros col re file upper a Hwf. apply roundtrip_lines_sec. exact Hwf. Qed.

Theorem lines_unlines :
  forall (ls : list str) (eols : list bool) (final : bool),
    Forall line_ok ls -> (final = false -> last ls [] <> []) ->
    lines (unlines ls eols final) = ls.
Proof. exact lines_unlines_gen. Qed.

Theorem roundtrip :
  forall col re file upper (a : list item) eols final,
    wf_script col re a -> (final = false -> last (render_lines a) [] <> []) ->
    parse col re file upper (render a eols final) = POk (elab file upper a).
Proof.
  intros col re file upper a eols final Hwf Hlast. unfold parse, render.
  rewrite lines_unlines; [apply roundtrip_lines; exact Hwf | | exact Hlast].
  eapply render_lines_ok. exact Hwf.
Qed.

Print Assumptions roundtrip_lines.
Print Assumptions lines_unlines.
Print Assumptions roundtrip.
