(* DriverCancel.v — what a cancellation does in the driver model (C19), proved directly on the model:
   once the token is set (by Ctrl-C, by a failure under fail-fast, by a refused connection) it stays set; no step sends a
   statement or opens a session any more; a file that had not looked at the token yet is reported Skipped, whenever
   it is reported; a file that was running is reported Cancelled unless it had already finished on its own. *)
From SLT Require Import Base Par Cli ParProofs Driver DriverTrans DriverInv.
Open Scope N_scope.

Lemma trans_token_mono cf st st' evs : trans cf st st' evs -> d_token st = true -> d_token st' = true.
Proof.
  intros T H. destruct T; cbn [set_phase set_tasks d_token]; auto.
  unfold report_result. destruct r; cbn [fst d_token]; auto. rewrite H. reflexivity.
Qed.

Lemma reach_token_mono cf st st' tr : reach cf st st' tr -> d_token st = true -> d_token st' = true.
Proof. intros R; induction R; auto. intros H0. apply IHR. eapply trans_token_mono; eauto. Qed.

Definition quiet (e : pev) : Prop := match e with PConnect _ _ | PSql _ _ => False | _ => True end.

(* with the token set, no step opens a session or sends a statement *)
Lemma trans_quiet cf st st' evs : trans cf st st' evs -> d_token st = true -> Forall quiet evs.
Proof.
  intros T H. destruct T; try (repeat constructor; fail).
  - destruct H2; try (repeat constructor; fail); congruence.
  - unfold report_result. destruct r; cbn [snd]; try constructor.
    destruct (c_ff cf || (d_refused st || refused)); repeat constructor.
Qed.

Theorem driver_quiet_after_cancel cf st st' tr :
  reach cf st st' tr -> d_token st = true -> Forall quiet tr.
Proof.
  intros R; induction R; intros H0; [constructor|].
  apply Forall_app. split; [eapply trans_quiet; eauto|]. apply IHR. eapply trans_token_mono; eauto.
Qed.

(* ---- what becomes of the files ---- *)
(* [fate t r]: a file in state t can only ever be reported with a result allowed by [fate] once the token is set *)
Definition fate (t : tstate) (r : fresult) : Prop :=
  match t with
  | TIdle | TSpawned | TWaitSkip => r = RSkipped
  | TRunning _ _ => r = RCancelled
  | TClosing r0 _ _ | TDone r0 _ => r = r0
  | TReported _ => False
  end.

Lemma ttrans_fate f nr next t t' evs next' r :
  ttrans f true nr next t t' evs next' -> fate t' r -> fate t r.
Proof.
  intros T; remember true as tok; destruct T; cbn [fate]; auto; try congruence; try (intros ->; reflexivity).
Qed.

Record CInv (cf : cfg) (old : list (str * fresult)) (tasks0 : list (fcfg * tstate)) (st : dst) : Prop := mkCInv {
  c_tasks : forall i f t, nth_error (d_tasks st) i = Some (f, t) ->
            exists t0, nth_error tasks0 i = Some (f, t0) /\ (forall r, fate t r -> fate t0 r);
  c_rep : exists new, d_reported st = old ++ new /\
          forall d r, In (d, r) new -> exists i f t0, nth_error tasks0 i = Some (f, t0) /\ f_db f = d /\ fate t0 r
}.

Lemma CInv_trans cf old tasks0 st st' evs :
  d_token st = true -> CInv cf old tasks0 st -> trans cf st st' evs -> CInv cf old tasks0 st'.
Proof.
  intros Tk [C1 C2] T. destruct T; try (constructor; cbn [set_phase set_tasks d_tasks d_reported]; assumption).
  - (* spawn *) constructor; cbn [set_tasks d_tasks d_reported]; [|exact C2].
    intros j g u Hj. destruct (nth_error_upd _ _ _ _ _ _ H1 Hj) as [[<- E]|[_ E]]; [|apply C1; exact E].
    injection E as -> ->. destruct (C1 _ _ _ H1) as [t0 [A B]]. exists t0. split; [exact A|]. intros r Hr. apply B. exact Hr.
  - (* task *) constructor; cbn [set_tasks d_tasks d_reported]; [|exact C2].
    intros j g u Hj. destruct (nth_error_upd _ _ _ _ _ _ H0 Hj) as [[<- E]|[_ E]]; [|apply C1; exact E].
    injection E as -> ->. destruct (C1 _ _ _ H0) as [t0 [A B]]. exists t0. split; [exact A|].
    intros r Hr. apply B. rewrite Tk in H1. eapply ttrans_fate; eauto.
  - (* report *)
    destruct (C1 _ _ _ H0) as [t0 [A B]].
    assert (C1' : forall j g u, nth_error (upd i (f, TReported had) (d_tasks st)) j = Some (g, u) ->
                  exists t1, nth_error tasks0 j = Some (g, t1) /\ (forall r', fate u r' -> fate t1 r')).
    { intros j g u Hj. destruct (nth_error_upd _ _ _ _ _ _ H0 Hj) as [[<- E]|[_ E]]; [|apply C1; exact E].
      injection E as -> ->. exists t0. split; [exact A|]. intros r' []. }
    assert (C2' : exists new, d_reported st ++ [(f_db f, r)] = old ++ new /\
                  forall d r', In (d, r') new -> exists i f t0, nth_error tasks0 i = Some (f, t0) /\ f_db f = d /\ fate t0 r').
    { destruct C2 as [new [E F]]. exists (new ++ [(f_db f, r)]). split; [rewrite E, app_assoc; reflexivity|].
      intros d r' Hin. apply in_app_iff in Hin. destruct Hin as [Hin|[Hin|[]]]; [apply F; exact Hin|].
      injection Hin as <- <-. exists i, f, t0. split; [exact A|]. split; [reflexivity|]. apply B. reflexivity. }
    unfold report_result. destruct r; cbn [fst]; constructor; cbn [d_tasks d_reported]; assumption.
Qed.

Lemma CInv_start st cf : CInv cf (d_reported st) (d_tasks st) st.
Proof.
  constructor.
  - intros i f t Hi. exists t. auto.
  - exists []. split; [rewrite app_nil_r; reflexivity|]. intros d r [].
Qed.

(* Wherever a run stands when the token is set: every file reported from then on gets the result its state at that moment
   allows - Skipped if it had not looked at the token yet, Cancelled if it was running, its own result if it was already
   shutting down or finished. *)
Theorem driver_fates_after_cancel cf st st' tr :
  reach cf st st' tr -> d_token st = true ->
  exists new, d_reported st' = d_reported st ++ new /\
    forall d r, In (d, r) new -> exists i f t0, nth_error (d_tasks st) i = Some (f, t0) /\ f_db f = d /\ fate t0 r.
Proof.
  intros R Tk.
  assert (G : forall a b tr0, reach cf a b tr0 -> d_token a = true -> CInv cf (d_reported st) (d_tasks st) a -> CInv cf (d_reported st) (d_tasks st) b).
  { clear. intros a b tr0 R0; induction R0; intros Tk C; [exact C|].
    apply IHR0; [eapply trans_token_mono; eauto|eapply CInv_trans; eauto]. }
  exact (c_rep _ _ _ _ (G _ _ _ R Tk (CInv_start st cf))).
Qed.
