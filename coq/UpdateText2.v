(* UpdateText2.v — the text layer of --override, part 2 (a whole file, before the trailing-newline
   trimmer): the records the updater writes for ONE file (no include markers), as they are
   written ([map reread]), satisfy the parser-output invariant [parsed_ok] of C05; hence the text
   appended to the file parses back to them ([reparse]: locations recomputed, adjacent comment
   blocks merged) and has their meaning. *)
From SLT Require Import Base Text Syntax Duration Parser Render TextProofs RenderProofs
     Unparse FormatSpec FormatProofs Runner Update UpdateSpec UpdateProofs
     UpdateFile1 UpdateFile3 UpdateFile UpdateText.
Open Scope N_scope.

(* ------------------------------------------------------------------ reread and the scan *)
Lemma conds_match_reread cs cn r : conds_match cs cn (reread r) = conds_match cs cn r.
Proof. destruct r; reflexivity. Qed.
Lemma next_st_reread cs cn r : next_st cs cn (reread r) = next_st cs cn r.
Proof. destruct r; reflexivity. Qed.

Lemma sbe_conds_match cs cn r r' :
  same_but_expectation r r' -> conds_match cs cn r -> conds_match cs cn r'.
Proof.
  destruct r, r'; cbn [same_but_expectation conds_match]; try contradiction.
  - intros (_ & <- & <- & _) H. exact H.
  - destruct e0; try contradiction. intros (_ & <- & <- & _) H. exact H.
  - intros (_ & <- & <- & _) H. exact H.
  - intros (_ & <- & _) H. exact H.
Qed.

Lemma sbe_next_st cs cn r r' : same_but_expectation r r' -> next_st cs cn r' = next_st cs cn r.
Proof.
  destruct r, r'; cbn [same_but_expectation next_st]; try contradiction; reflexivity.
Qed.

Lemma display_reread r : display (reread r) = display r.
Proof.
  destruct r; cbn [reread display]; try reflexivity.
  destruct stdout as [t|]; cbn [option_map]; [|reflexivity].
  unfold multi_body. rewrite trim_idem. reflexivity.
Qed.

Lemma rec_text_reread r : rec_text (reread r) = rec_text r.
Proof. unfold rec_text. rewrite display_reread. reflexivity. Qed.

Lemma recs_text_reread rs : recs_text (map reread rs) = recs_text rs.
Proof.
  unfold recs_text. induction rs as [|r rs IH]; [reflexivity|].
  cbn [map flat_map]. rewrite rec_text_reread, IH. reflexivity.
Qed.

Lemma write_records_text : forall rs f, write_records rs = Some f -> recs_text rs = f.
Proof.
  induction rs as [|r rs IH]; intros f H; cbn [write_records] in H.
  - inversion H; subst. reflexivity.
  - destruct (display r) as [a|] eqn:Hd; [|discriminate].
    destruct (write_records rs) as [b|] eqn:Hw; [|discriminate]. inversion H; subst.
    unfold recs_text in *. cbn [flat_map]. rewrite (IH b eq_refl). unfold rec_text. rewrite Hd.
    unfold nl1. rewrite <- app_assoc. reflexivity.
Qed.

Lemma marker_reread r : marker (reread r) = marker r.
Proof. destruct r; reflexivity. Qed.

Lemma rec_ok_no_marker col rv r : rec_ok col rv r -> marker r = None.
Proof. destruct r; cbn [rec_ok marker]; try reflexivity; contradiction. Qed.

Lemma split_files_flat : forall rs f l,
  Forall (fun r => marker r = None) rs -> split_files rs [(f, l)] [] = Some [(f, l ++ rs)].
Proof.
  induction rs as [|r rs IH]; intros f l H.
  - cbn [split_files]. rewrite app_nil_r. reflexivity.
  - inversion H as [|r' rs' Hr Hrs]; subst. cbn [split_files]. rewrite Hr.
    rewrite IH by exact Hrs. rewrite <- app_assoc. reflexivity.
Qed.

(* reread commutes with the meaning of a script *)
Lemma erase_reread r : erase (reread r) = reread (erase r).
Proof. destruct r; reflexivity. Qed.

Lemma meaning_map_reread : forall rs, meaning (map reread rs) = map reread (meaning rs).
Proof.
  induction rs as [|r rs IH]; [reflexivity|].
  destruct r; cbn [map reread meaning]; rewrite ?IH; try reflexivity.
  destruct (meaning rs) as [|[] m]; reflexivity.
Qed.

(* ------------------------------------------------------------------ the list *)
Section Lists.
  Variable col : N -> option N.
  Variable rv : str -> bool.
  Variable rm : str -> str -> bool.
  Variable sep : str.
  Variable strict : bool.
  Variable substitute : bool -> list (str * str) -> str -> subres.
  Variable sc : script.
  Hypothesis Hcol : col_stable col.
  Hypothesis Hesc : escape_valid rv.

  Notation rec_ok := (rec_ok col rv).
  Notation parsed_ok := (parsed_ok col rv).
  Notation out_repr := (out_repr col sep strict).
  Notation upd := (upd rm sep strict substitute sc).
  Notation written_rec := (written_rec rm sep strict).

  Lemma scan_written r o cs cn :
    conds_match cs cn r ->
    conds_match cs cn (reread (written_rec r o)) /\
    next_st cs cn (reread (written_rec r o)) = next_st cs cn r.
  Proof.
    intros Hm. rewrite conds_match_reread, next_st_reread. unfold UpdateText.written_rec.
    destruct (update_record rm sep strict r o) as [x|] eqn:Hu; [|split; [exact Hm | reflexivity]].
    apply update_frame in Hu. split; [eapply sbe_conds_match; eassumption | apply sbe_next_st; exact Hu].
  Qed.

  (* every record written is [written_rec] of the input record and its output; the outputs of
     [upd] are aligned with the input list (ONothing for what was not executed) *)
  Lemma upd_parsed_ok : forall rs depth halt st w rs' ev kn outs cs cn (K : list cond -> conn -> Prop),
    upd rs depth halt st w = Some (rs', ev, kn, outs) ->
    Forall rec_ok rs -> Forall2 out_repr rs outs -> scanP cs cn rs K ->
    Forall rec_ok (map reread rs') /\ scanP cs cn (map reread rs') K.
  Proof.
    induction rs as [|r rest IH]; intros depth halt st w rs' ev kn outs cs cn K H Hok Hout Hsc.
    - cbn [UpdateFile1.upd] in H. destruct depth; [discriminate|]. inversion H; subst.
      split; [constructor | exact Hsc].
    - destruct depth as [|below]; [discriminate H|]. cbn [UpdateFile1.upd] in H.
      inversion Hok as [|r0 rest0 Hr Hrest]; subst.
      apply scanP_cons in Hsc as [Hm Hsc].
      assert (Hstep : forall o x r',
                 cons_res r' (fst (fst x)) (snd (fst x)) o (snd x) = Some (rs', ev, kn, outs) ->
                 r' = written_rec r o ->
                 (forall rs0 ev0 kn0 os, snd x = Some (rs0, ev0, kn0, os) ->
                    Forall2 out_repr rest os ->
                    Forall rec_ok (map reread rs0) /\
                    scanP (fst (next_st cs cn r)) (snd (next_st cs cn r)) (map reread rs0) K) ->
                 Forall rec_ok (map reread rs') /\ scanP cs cn (map reread rs') K).
      { intros o x r' Hc Hr' Hx. apply cons_res_some in Hc as (rs0 & ev0 & kn0 & os & Hx0 & E).
        inversion E; subst rs' outs. inversion Hout as [|a b la lb Ho Hos]; subst.
        destruct (Hx _ _ _ _ Hx0 Hos) as [H1 H2].
        destruct (scan_written r o cs cn Hm) as [Hm' Hn'].
        cbn [map]. split.
        - constructor; [|exact H1]. apply written_rec_ok; assumption.
        - apply scanP_cons. split; [exact Hm'|]. rewrite Hn'. exact H2. }
      assert (Hcopy : forall d h,
                 cons_res r [] [] ONothing (upd rest d h st w) = Some (rs', ev, kn, outs) ->
                 Forall rec_ok (map reread rs') /\ scanP cs cn (map reread rs') K).
      { intros d h Hc. apply (Hstep ONothing ([], [], upd rest d h st w) r Hc).
        - unfold UpdateText.written_rec. rewrite update_skipped. reflexivity.
        - cbn [snd]. intros rs0 ev0 kn0 os Hx Hos. eapply IH; eassumption. }
      destruct (rkind_of r) eqn:Ek.
      + destruct r; try discriminate Ek. contradiction.
      + destruct r; try discriminate Ek. contradiction.
      + eapply Hcopy. exact H.
      + destruct halt; [eapply Hcopy; exact H|].
        destruct (apply_record substitute sc st w r) as [[[e1 st1] w1] o] eqn:Ea.
        cbv zeta in H.
        apply (Hstep o (e1, known_class sep (cfg st1) r o, upd rest (S below) false st1 w1) _ H).
        * reflexivity.
        * cbn [snd]. intros rs0 ev0 kn0 os Hx Hos. eapply IH; eassumption.
  Qed.

  (* PART 2: the records written for a file without includes, as written, are parser output *)
  Theorem updated_records_parsed_ok rs st w :
    parsed_ok rs ->
    Forall2 out_repr rs (updated_outputs rm sep strict substitute sc rs st w) ->
    upd rs 1 false st w <> None ->
    parsed_ok (map reread (updated_records rm sep strict substitute sc rs st w)).
  Proof.
    intros [Hok Hsc] Hout Hne. unfold updated_records, updated_outputs in *.
    destruct (upd rs 1 false st w) as [[[[rs' ev] kn] outs]|] eqn:U; [|contradiction].
    destruct (upd_parsed_ok rs 1%nat false st w rs' ev kn outs [] CDefault (fun _ _ => True) U Hok Hout Hsc)
      as [H1 H2].
    split; assumption.
  Qed.

  (* PART 3a: the text appended for the file (before the trailing-newline trimmer) parses, with
     the same column-type function and regex oracle, to the records written ([reread]: an
     expected stdout trimmed, as Display writes it and as the parser returns it), with the
     locations of the new text and adjacent comment blocks merged ([reparse]); in particular to
     a script with the same meaning. *)
  Theorem update_text_reparses_untrimmed :
    forall file upper main rs st w written ev kn,
      parsed_ok rs ->
      update_loop rm sep strict substitute sc false rs [mkItem main []] false st w [] [] []
        = UOk written ev kn ->
      Forall2 out_repr rs (updated_outputs rm sep strict substitute sc rs st w) ->
      let rs' := updated_records rm sep strict substitute sc rs st w in
      exists bytes,
        written = [(main, bytes)] /\
        trim_tail (utf8 (recs_text rs')) = TOk bytes /\
        write_records (map reread rs') = Some (recs_text rs') /\
        parse col rv file upper (recs_text rs') = POk (reparse file upper 0 [] (map reread rs')) /\
        meaning (reparse file upper 0 [] (map reread rs')) = map reread (meaning rs').
  Proof.
    intros file upper main rs st w written ev kn Hp HU Hout rs'.
    pose proof (update_loop_updated _ _ _ _ _ _ _ _ _ _ _ _ HU) as (_ & _ & files & Hsp & Hcl & _).
    apply update_loop_upd in HU. destruct HU as (rs1 & ev1 & kn1 & outs & U & _ & _).
    cbn [length] in U.
    assert (Hpo : parsed_ok (map reread rs')).
    { apply updated_records_parsed_ok; [exact Hp | exact Hout | rewrite U; discriminate]. }
    fold rs' in Hsp.
    assert (Hmk : Forall (fun r => marker r = None) rs').
    { destruct Hpo as [Hok _]. apply Forall_forall. intros r Hr.
      rewrite Forall_forall in Hok. rewrite <- marker_reread.
      eapply rec_ok_no_marker. apply Hok. apply in_map. exact Hr. }
    rewrite (split_files_flat rs' main [] Hmk) in Hsp. inversion Hsp; subst files. cbn [app] in Hcl.
    inversion Hcl as [|p d lp ld Hpd Hrest]; subst. inversion Hrest; subst.
    destruct d as [dn db]. destruct Hpd as [Hn Ht]. cbn [fst snd] in Hn, Ht. subst dn.
    exists db. split; [reflexivity|]. split; [exact Ht|].
    destruct (reparse_parse col rv file upper _ Hpo) as (f & Hw & Hparse).
    pose proof (write_records_text _ _ Hw) as Hf. rewrite recs_text_reread in Hf. subst f.
    split; [exact Hw|]. split; [exact Hparse|].
    rewrite meaning_reparse; [apply meaning_map_reread | | reflexivity].
    eapply rec_ok_comment_ne. apply Hpo.
  Qed.
End Lists.

Print Assumptions updated_records_parsed_ok.
Print Assumptions update_text_reparses_untrimmed.
