(* SerialProofs.v — the serial driver model: results consistent, exit decision, order, nothing new after a cancellation. *)
From SLT Require Import Base Cli CliProofs Serial.
Open Scope N_scope.

Fixpoint tokf (ff tok : bool) (rs : list fresult) : bool :=
  match rs with
  | [] => tok
  | r :: rest => tokf ff (match r with RErr refused => tok || ff || refused | _ => tok end) rest
  end.

Lemma tokf_snoc ff rs r : forall tok,
  tokf ff tok (rs ++ [r]) = match r with RErr refused => tokf ff tok rs || ff || refused | _ => tokf ff tok rs end.
Proof. induction rs as [|x rs IH]; intros tok; cbn [app tokf]; [destruct r; reflexivity|apply IH]. Qed.

Lemma cancelled_fold ff rs : forall s, cancelled (fold_left (on_result ff) rs s) = tokf ff (cancelled s) rs.
Proof.
  induction rs as [|r rs IH]; intros s; cbn [fold_left tokf]; [reflexivity|].
  rewrite IH. destruct r; reflexivity.
Qed.

Lemma failed_fold_snoc ff rs r : failed (drive ff (rs ++ [r])) = (failed (drive ff rs) + match r with RErr _ => 1 | _ => 0 end)%nat.
Proof. unfold drive. rewrite fold_left_app. cbn [fold_left]. destruct r; cbn [on_result failed]; lia. Qed.

Lemma consistent_snoc ff cc rs r : forall tok,
  consistent ff cc tok rs ->
  (match r with RCancelled | RSkipped => tokf ff tok rs = true \/ cc = true | _ => True end) ->
  consistent ff cc tok (rs ++ [r]).
Proof.
  induction rs as [|x rs IH]; intros tok; cbn [app consistent tokf].
  - intros _ H. split; [|exact I]. destruct r; auto.
  - intros [H1 H2] H. split; [exact H1|]. apply IH; assumption.
Qed.

Lemma consistent_cc ff rs : forall tok cc, consistent ff cc tok rs -> consistent ff true tok rs.
Proof.
  induction rs as [|r rs IH]; intros tok cc; cbn [consistent]; [auto|].
  intros [H1 H2]. split; [destruct r; auto|eapply IH; exact H2].
Qed.

Record SInv (ff : bool) (st : sst) : Prop := mkSInv {
  v_tok : s_token st = s_ctrlc st || tokf ff false (s_reported st);
  v_failed : s_failed st = failed (drive ff (s_reported st));
  v_cons : consistent ff (s_ctrlc st) false (s_reported st)
}.

Lemma SInv_init ff files : SInv ff (sst0 files).
Proof. constructor; cbn; auto. Qed.

Lemma SInv_step ff st c : SInv ff st -> SInv ff (sstep ff st c).
Proof.
  intros [V1 V2 V3]. destruct c as [intr|]; cbn [sstep].
  - destruct (s_todo st) as [|own rest]; [constructor; assumption|].
    destruct (s_token st) eqn:T.
    + constructor; cbn [s_token s_ctrlc s_failed s_reported].
      * rewrite tokf_snoc. rewrite <- V1. reflexivity.
      * rewrite failed_fold_snoc, <- V2. lia.
      * apply consistent_snoc; [exact V3|]. destruct (s_ctrlc st); [right; reflexivity|left]. cbn [orb] in V1. congruence.
    + destruct intr.
      * constructor; cbn [s_token s_ctrlc s_failed s_reported].
        -- reflexivity.
        -- rewrite failed_fold_snoc, <- V2. lia.
        -- apply consistent_snoc; [eapply consistent_cc; exact V3|]. right; reflexivity.
      * assert (Hc : s_ctrlc st = false /\ tokf ff false (s_reported st) = false).
        { destruct (s_ctrlc st), (tokf ff false (s_reported st)); cbn in V1; try discriminate; auto. }
        destruct Hc as [Hc Ht].
        destruct own as [|refused]; constructor; cbn [s_token s_ctrlc s_failed s_reported].
        -- rewrite tokf_snoc, Ht, Hc. reflexivity.
        -- rewrite failed_fold_snoc, <- V2. lia.
        -- apply consistent_snoc; [exact V3|exact I].
        -- rewrite tokf_snoc, Ht, Hc. reflexivity.
        -- rewrite failed_fold_snoc, <- V2. lia.
        -- apply consistent_snoc; [exact V3|exact I].
  - constructor; cbn [s_token s_ctrlc s_failed s_reported]; auto. eapply consistent_cc; exact V3.
Qed.

Lemma SInv_run ff sched : forall st, SInv ff st -> SInv ff (srun ff st sched).
Proof. induction sched as [|c r IH]; intros st I; cbn [srun fold_left]; [exact I|]. apply IH. apply SInv_step; exact I. Qed.

(* whenever Ctrl-C arrives: the reported results satisfy the premise of C16_exit ... *)
Theorem serial_results_consistent ff files sched :
  let st := srun ff (sst0 files) sched in consistent ff (s_ctrlc st) false (s_reported st).
Proof. exact (v_cons _ _ (SInv_run ff sched _ (SInv_init ff files))). Qed.

(* ... and the exit decision is the one Cli.v studies *)
Theorem serial_exit_is_cli_exit ff files sched :
  let st := srun ff (sst0 files) sched in sexit st = exit_status ff (s_ctrlc st) (s_reported st).
Proof.
  cbn zeta. destruct (SInv_run ff sched _ (SInv_init ff files)) as [V1 V2 _].
  unfold sexit, exit_status. rewrite V2. destruct (failed (drive ff _)); [|reflexivity].
  rewrite V1. unfold drive. rewrite cancelled_fold. cbn [cancelled]. rewrite orb_comm. reflexivity.
Qed.

Corollary serial_exit_truth ff files sched :
  let st := srun ff (sst0 files) sched in (sexit st = 0 <-> all_ok (s_reported st) /\ s_ctrlc st = false).
Proof.
  cbn zeta. rewrite (serial_exit_is_cli_exit ff files sched). apply exit_truth. apply serial_results_consistent.
Qed.

(* the files are reported in order, one result each; what remains to be run is the rest of the list *)
Lemma serial_shape ff sched : forall st,
  exists k, s_todo (srun ff st sched) = skipn k (s_todo st) /\
            length (s_reported (srun ff st sched)) = (length (s_reported st) + Nat.min k (length (s_todo st)))%nat.
Proof.
  induction sched as [|c r IH]; intros st; cbn [srun fold_left].
  - exists O. cbn. split; [reflexivity|lia].
  - destruct (IH (sstep ff st c)) as [k [E1 E2]]. fold (srun ff (sstep ff st c) r) in *.
    destruct c as [intr|]; cbn [sstep] in *.
    + destruct (s_todo st) as [|own rest] eqn:Td.
      * exists k. rewrite Td in *. split; [exact E1|]. rewrite E2. cbn [length]. lia.
      * assert (G : exists st1, sstep ff st (SRun intr) = st1 /\ s_todo st1 = rest /\ length (s_reported st1) = S (length (s_reported st))).
        { cbn [sstep]. rewrite Td. destruct (s_token st); [|destruct intr; [|destruct own]]; eexists; (split; [reflexivity|]);
            cbn [s_todo s_reported]; rewrite app_length; cbn [length]; split; auto; lia. }
        destruct G as [st1 [G0 [G1 G2]]]. cbn [sstep] in G0. rewrite Td in G0. rewrite G0 in *.
        exists (S k). rewrite G1 in *. cbn [skipn length]. split; [exact E1|]. rewrite E2, G2. lia.
    + exists k. cbn [s_todo s_reported] in *. split; [exact E1|exact E2].
Qed.

Theorem serial_every_file_reported_once ff files sched :
  let st := srun ff (sst0 files) sched in s_todo st = [] -> length (s_reported st) = length files.
Proof.
  cbn zeta. intros H. destruct (serial_shape ff sched (sst0 files)) as [k [E1 E2]]. cbn [sst0 s_todo s_reported length] in *.
  rewrite H in E1. symmetry in E1.
  assert (length files <= k)%nat. { rewrite <- (firstn_skipn k files) at 1. rewrite E1, app_nil_r. apply firstn_le_length. }
  rewrite E2. lia.
Qed.

(* once the token is set, every file that is still to come is reported Skipped: no new work *)
Lemma serial_skip_step ff st c : s_token st = true ->
  s_token (sstep ff st c) = true /\
  exists new, s_reported (sstep ff st c) = s_reported st ++ new /\ Forall (fun r => r = RSkipped) new.
Proof.
  intros T. destruct c as [intr|]; cbn [sstep].
  - destruct (s_todo st); [split; [exact T|exists []; rewrite app_nil_r; auto]|].
    rewrite T. cbn [s_token s_reported]. split; [reflexivity|]. exists [RSkipped]. auto.
  - cbn [s_token s_reported]. split; [reflexivity|]. exists []. rewrite app_nil_r. auto.
Qed.

Theorem serial_no_new_work ff sched : forall st, s_token st = true ->
  exists new, s_reported (srun ff st sched) = s_reported st ++ new /\ Forall (fun r => r = RSkipped) new.
Proof.
  induction sched as [|c r IH]; intros st T; cbn [srun fold_left].
  - exists []. rewrite app_nil_r. auto.
  - destruct (serial_skip_step ff st c T) as [T1 [n1 [E1 F1]]]. destruct (IH _ T1) as [n2 [E2 F2]].
    fold (srun ff (sstep ff st c) r) in *. exists (n1 ++ n2). rewrite E2, E1, app_assoc. split; [reflexivity|].
    apply Forall_app; auto.
Qed.

(* without Ctrl-C: every file before the first failure that cancels passes or fails on its own, everything after it is skipped *)
Fixpoint plain_results (ff tok : bool) (files : list sfile) : list fresult :=
  match files with
  | [] => []
  | f :: rest => if tok then RSkipped :: plain_results ff true rest
                 else own_result f :: plain_results ff (match f with FFails r => ff || r | FPass => false end) rest
  end.

Lemma plain_run ff files : forall st, s_todo st = files ->
  s_reported (srun ff st (plain_schedule files)) = s_reported st ++ plain_results ff (s_token st) files /\
  s_todo (srun ff st (plain_schedule files)) = [].
Proof.
  induction files as [|f rest IH]; intros st E; cbn [plain_schedule map srun fold_left plain_results].
  - rewrite app_nil_r. auto.
  - fold (plain_schedule rest). fold (srun ff (sstep ff st (SRun false)) (plain_schedule rest)).
    cbn [sstep]. rewrite E. destruct (s_token st) eqn:T.
    + destruct (IH (mkS rest true (s_ctrlc st) (s_failed st) (s_reported st ++ [RSkipped])) eq_refl) as [A B].
      cbn [s_reported s_token] in A. rewrite A, <- app_assoc. auto.
    + destruct f as [|rf].
      * destruct (IH (mkS rest false (s_ctrlc st) (s_failed st) (s_reported st ++ [ROk])) eq_refl) as [A B].
        cbn [s_reported s_token] in A. rewrite A, <- app_assoc. auto.
      * destruct (IH (mkS rest (ff || rf) (s_ctrlc st) (S (s_failed st)) (s_reported st ++ [RErr rf])) eq_refl) as [A B].
        cbn [s_reported s_token] in A. rewrite A, <- app_assoc. auto.
Qed.

Theorem serial_plain_results ff files :
  s_reported (srun ff (sst0 files) (plain_schedule files)) = plain_results ff false files.
Proof. destruct (plain_run ff files (sst0 files) eq_refl) as [A _]. exact A. Qed.
