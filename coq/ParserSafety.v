(* ParserSafety.v — C04: safety and strictness of the parser model (Parser.v) against the
   documented grammar (HeaderSpec.v).
     1. parse_no_panic / parse_panic_witness
     2. parse_error_line_bound
     3. top_line_uniform
     4. reject_at_boundary
     5. accept_iff_valid_header
     6. statement_results_rejected / duplicated_error_rejected *)
From SLT Require Export HeaderSpec.
Open Scope N_scope.

(* ------------------------------------------------------------------------- *)
(* Statements' vocabulary                                                     *)

Definition dur_safe (ls : list str) : Prop :=
  forall l t, In l ls -> In t (split_ws l) -> parse_duration t <> DPanic.

Inductive line_status := LAccept | LReject (k : pkind) | LPanic.

Definition status_of col re (line : str) : line_status :=
  match top_line col re [] None pstate0 0 line with
  | SNext _ => LAccept
  | SFail k _ => LReject k
  | SPanic => LPanic
  end.

(* ------------------------------------------------------------------------- *)
(* Tactics                                                                    *)

(* destruct an innermost scrutinee of the goal *)
Ltac dmg :=
  match goal with
  | |- context [match ?x with _ => _ end] =>
      lazymatch x with
      | context [match _ with _ => _ end] => fail
      | _ => destruct x eqn:?
      end
  end.

(* destruct an innermost scrutinee of a hypothesis *)
Ltac dmh :=
  match goal with
  | H : context [match ?x with _ => _ end] |- _ =>
      lazymatch x with
      | context [match _ with _ => _ end] => fail
      | _ => destruct x eqn:?
      end
  end.

(* decide keyword tests on closed keywords *)
Ltac kwc :=
  repeat match goal with
         | |- context [kw ?x (lit ?y)] =>
             let b := eval vm_compute in (kw x (lit y)) in
             change (kw x (lit y)) with b
         end.

Lemma kw_true x t : kw x t = true <-> t = lit x.
Proof. unfold kw. apply str_eqb_eq. Qed.

Lemma kw_lit x : kw x (lit x) = true.
Proof. apply kw_true. reflexivity. Qed.

(* turn [kw x t = true] hypotheses into substitutions *)
Ltac kws :=
  repeat match goal with
         | H : kw ?x ?t = true |- _ => apply kw_true in H; subst t
         end.

(* ------------------------------------------------------------------------- *)
(* 6. block-level rejections                                                  *)

Theorem statement_results_rejected :
  forall col re file upper p hl e r sql,
    (e = SOk \/ exists n, e = SCount n) ->
    step col re file upper
      (mkP (recs p) (pconds p) (pconn p) (pcomments p) (lineno p) (Body hl (HStatement e r) sql)) DELIM
    = SFail PStatementHasResults hl.
Proof.
  intros col re file upper p hl e r sql [He | [n He]]; subst e; reflexivity.
Qed.
Print Assumptions statement_results_rejected.

Theorem duplicated_error_rejected :
  forall col re file upper p hl x r sql,
    x <> EEmpty ->
    step col re file upper
      (mkP (recs p) (pconds p) (pconn p) (pcomments p) (lineno p) (Body hl (HStatement (SError x) r) sql)) DELIM
    = SFail PDuplicatedErrorMessage hl /\
    step col re file upper
      (mkP (recs p) (pconds p) (pconn p) (pcomments p) (lineno p) (Body hl (HQuery (QError x) r) sql)) DELIM
    = SFail PDuplicatedErrorMessage hl.
Proof.
  intros col re file upper p hl x r sql Hx.
  destruct x as [| s | s]; [congruence | split; reflexivity | split; reflexivity].
Qed.
Print Assumptions duplicated_error_rejected.

(* ------------------------------------------------------------------------- *)
(* 1b. the witness that humantime's panic is reachable                         *)

Theorem parse_panic_witness :
  exists s, parse default_col (fun _ => true) (lit "t.slt") None s = PPanic.
Proof.
  exists (lit "sleep 18446744073709551615s1000000000ns").
  vm_compute. reflexivity.
Qed.
Print Assumptions parse_panic_witness.

(* ------------------------------------------------------------------------- *)
(* 3. uniformity of top_line                                                  *)

Theorem top_line_uniform :
  forall col re file upper p n line,
    match status_of col re line with
    | LAccept => exists p', top_line col re file upper p n line = SNext p'
    | LReject k => top_line col re file upper p n line = SFail k n
    | LPanic => top_line col re file upper p n line = SPanic
    end.
Proof.
  intros col re file upper p n line.
  unfold status_of, top_line.
  destruct line as [| c line]; [eexists; reflexivity |].
  destruct (split_ws (c :: line)) as [| t args]; [eexists; reflexivity |].
  repeat dmg; try reflexivity; try (eexists; reflexivity).
Qed.
Print Assumptions top_line_uniform.

(* ------------------------------------------------------------------------- *)
(* The step function in Top mode, without the deep pattern on '#'              *)

Definition is_comment (line : str) : bool :=
  match line with c :: _ => c =? 35 | [] => false end.

Lemma is_comment_hd line : hd_error line <> Some 35 -> is_comment line = false.
Proof.
  destruct line as [| c text]; [reflexivity |].
  cbn [hd_error is_comment]. intros H.
  destruct (N.eqb_spec c 35) as [E | E]; [subst c; congruence | reflexivity].
Qed.

Section Safety.
  Variable col : N -> option N.
  Variable re : str -> bool.
  Variable file : str.
  Variable upper : option loc.

  Notation step := (step col re file upper).
  Notation top_line := (top_line col re file upper).
  Notation run_lines := (run_lines col re file upper).
  Notation emit := (emit file upper).
  Notation finish_multi := (finish_multi file upper).
  Notation finish := (finish file upper).
  Notation parse_lines_list := (parse_lines_list col re file upper).

  Lemma step_top rs cs cn cm ln line :
    step (mkP rs cs cn cm ln Top) line =
    if is_comment line
    then SNext (mkP rs cs cn (cm ++ [tl line]) (ln + 1) Top)
    else top_line (flush_comments (mkP rs cs cn cm (ln + 1) Top)) (ln + 1) line.
  Proof.
    destruct line as [| c text]; [reflexivity |].
    cbn [is_comment].
    destruct (N.eqb_spec c 35) as [E | E]; [subst c; reflexivity |].
    destruct c as [| q]; [reflexivity |].
    do 6 (try (destruct q as [q | q |]; try reflexivity)).
    congruence.
  Qed.

  (* --------------------------------------------------------------------- *)
  (* Panics come only from a duration word                                   *)

  Lemma in_tl {A} (x : A) l : In x (tl l) -> In x l.
  Proof. destruct l; cbn; auto. Qed.

  Lemma in_opt_tl {A B} (o : option B) (x : A) l :
    In x (match o with Some _ => tl l | None => l end) -> In x l.
  Proof. destruct o; [apply in_tl | auto]. Qed.

  Lemma parse_retry_panic ws :
    parse_retry ws = HPanic -> exists t, In t ws /\ parse_duration t = DPanic.
  Proof.
    unfold parse_retry. intros H.
    repeat dmh; try discriminate.
    eexists; split; [| eassumption]. cbn; auto.
  Qed.

  Lemma with_retry_panic ws f :
    with_retry ws f = HPanic -> exists t, In t ws /\ parse_duration t = DPanic.
  Proof.
    unfold with_retry. intros H. apply parse_retry_panic.
    destruct (parse_retry ws); congruence.
  Qed.

  Lemma parse_inline_no_panic ws : parse_inline re ws <> HPanic.
  Proof. unfold parse_inline. repeat dmg; discriminate. Qed.

  Lemma statement_header_panic ws :
    parse_statement_header re ws = HPanic -> exists t, In t ws /\ parse_duration t = DPanic.
  Proof.
    unfold parse_statement_header. intros H.
    repeat dmh; try discriminate;
      try (exfalso; eapply parse_inline_no_panic; eassumption);
      apply with_retry_panic in H; destruct H as [t [Hi Hd]];
      exists t; (split; [| exact Hd]); cbn; auto.
  Qed.

  Lemma query_header_panic ws :
    parse_query_header col re ws = HPanic -> exists t, In t ws /\ parse_duration t = DPanic.
  Proof.
    unfold parse_query_header. intros H.
    destruct ws as [| t rest]; [discriminate |].
    destruct (kw "error" t).
    - repeat dmh; try discriminate;
        try (exfalso; eapply parse_inline_no_panic; eassumption).
      apply with_retry_panic in H; destruct H as [x [Hi Hd]];
        exists x; (split; [| exact Hd]); cbn; auto.
    - destruct (parse_types col t); [| discriminate].
      cbv zeta in H. apply with_retry_panic in H. destruct H as [x [Hi Hd]].
      exists x; split; [| exact Hd]. right.
      apply in_opt_tl in Hi. apply in_opt_tl in Hi. exact Hi.
  Qed.

  Lemma status_panic line :
    status_of col re line = LPanic ->
    exists t, In t (split_ws line) /\ parse_duration t = DPanic.
  Proof.
    unfold status_of, Parser.top_line.
    destruct line as [| c line]; [discriminate |].
    destruct (split_ws (c :: line)) as [| t args]; [discriminate |].
    intros H.
    repeat dmh; try discriminate;
      match goal with
      | E : parse_duration ?d = DPanic |- _ => exists d; split; [cbn; auto | exact E]
      | E : parse_statement_header _ _ = HPanic |- _ =>
          apply statement_header_panic in E; destruct E as [x [Hi Hd]];
          exists x; split; [cbn; auto | exact Hd]
      | E : parse_query_header _ _ _ = HPanic |- _ =>
          apply query_header_panic in E; destruct E as [x [Hi Hd]];
          exists x; split; [cbn; auto | exact Hd]
      | E : parse_retry _ = HPanic |- _ =>
          apply parse_retry_panic in E; destruct E as [x [Hi Hd]];
          exists x; split; [cbn; auto | exact Hd]
      end.
  Qed.

  Lemma top_line_panic p n line :
    top_line p n line = SPanic ->
    exists t, In t (split_ws line) /\ parse_duration t = DPanic.
  Proof.
    intros H. apply status_panic.
    pose proof (top_line_uniform col re file upper p n line) as U.
    destruct (status_of col re line) as [| k |]; [destruct U as [p' U] | |]; congruence.
  Qed.

  Lemma top_line_fail p n line k m : top_line p n line = SFail k m -> m = n.
  Proof.
    intros H.
    pose proof (top_line_uniform col re file upper p n line) as U.
    destruct (status_of col re line) as [| k' |]; [destruct U as [p' U] | |]; congruence.
  Qed.

  Lemma on_delimiter_no_panic p hl h sql : on_delimiter p hl h sql <> SPanic.
  Proof. unfold on_delimiter. repeat dmg; discriminate. Qed.

  Lemma step_no_panic p l :
    (forall t, In t (split_ws l) -> parse_duration t <> DPanic) -> step p l <> SPanic.
  Proof.
    intros Hs H.
    destruct p as [rs cs cn cm ln m]. destruct m.
    - rewrite step_top in H. destruct (is_comment l); [discriminate |].
      apply top_line_panic in H. destruct H as [t [Hi Hd]]. exact (Hs t Hi Hd).
    - discriminate.
    - unfold Parser.step in H. cbn [pmode] in H.
      destruct l; [discriminate |].
      destruct (str_eqb _ DELIM); [| discriminate].
      exact (on_delimiter_no_panic _ _ _ _ H).
    - unfold Parser.step in H. cbn [pmode] in H. destruct l; discriminate.
    - unfold Parser.step in H. cbn [pmode] in H. destruct l; [destruct pending_blank |]; discriminate.
  Qed.

  Lemma run_lines_no_panic ls :
    dur_safe ls -> forall p, run_lines p ls <> SPanic.
  Proof.
    induction ls as [| l ls IH]; intros Hs p; cbn [Parser.run_lines]; [discriminate |].
    destruct (step p l) as [p' | k n |] eqn:E.
    - apply IH. intros l' t Hl Ht. apply (Hs l' t); [right; exact Hl | exact Ht].
    - discriminate.
    - exfalso. revert E. apply step_no_panic.
      intros t Ht. apply (Hs l t); [left; reflexivity | exact Ht].
  Qed.

  Lemma finish_no_panic p : finish p <> PPanic.
  Proof. unfold Parser.finish. destruct (pmode p); discriminate. Qed.

  Lemma parse_no_panic_sec ls : dur_safe ls -> parse_lines_list ls <> PPanic.
  Proof.
    intros Hs. unfold Parser.parse_lines_list.
    destruct (run_lines pstate0 ls) as [p | k n |] eqn:E.
    - apply finish_no_panic.
    - discriminate.
    - exfalso. exact (run_lines_no_panic ls Hs _ E).
  Qed.
End Safety.

Theorem parse_no_panic :
  forall col re file upper ls, dur_safe ls -> parse_lines_list col re file upper ls <> PPanic.
Proof. exact parse_no_panic_sec. Qed.
Print Assumptions parse_no_panic.

(* ------------------------------------------------------------------------- *)
(* 2 and 4: the line-number invariant of the states reached by run_lines       *)

Definition mode_line (m : mode) : option N :=
  match m with
  | Top => None
  | First l _ | Body l _ _ | ResultLines l _ _ _ | MultiLine l _ _ _ _ => Some l
  end.

(* [c] lines consumed; a pending block's header line lies in 1..c *)
Definition inv (c : N) (p : pstate) : Prop :=
  lineno p = c /\ forall hl, mode_line (pmode p) = Some hl -> 1 <= hl <= c.

Section Bounds.
  Variable col : N -> option N.
  Variable re : str -> bool.
  Variable file : str.
  Variable upper : option loc.

  Notation step := (step col re file upper).
  Notation top_line := (top_line col re file upper).
  Notation run_lines := (run_lines col re file upper).
  Notation emit := (emit file upper).
  Notation finish_multi := (finish_multi file upper).
  Notation finish := (finish file upper).
  Notation parse_lines_list := (parse_lines_list col re file upper).

  Lemma flush_lineno p : lineno (flush_comments p) = lineno p.
  Proof. unfold flush_comments. destruct (pcomments p); reflexivity. Qed.

  Lemma flush_mode p : pmode (flush_comments p) = pmode p.
  Proof. unfold flush_comments. destruct (pcomments p); reflexivity. Qed.

  Lemma emit_shape p line h sql q e o :
    lineno (emit p line h sql q e o) = lineno p /\ pmode (emit p line h sql q e o) = Top.
  Proof. destruct h; split; reflexivity. Qed.

  Lemma finish_multi_shape p line h sql acc :
    lineno (finish_multi p line h sql acc) = lineno p /\ pmode (finish_multi p line h sql acc) = Top.
  Proof. unfold Parser.finish_multi. destruct h; apply emit_shape. Qed.

  Lemma top_line_next p n line p' :
    top_line p n line = SNext p' ->
    lineno p' = lineno p /\ (pmode p' = pmode p \/ pmode p' = Top \/ exists h, pmode p' = First n h).
  Proof.
    unfold Parser.top_line.
    destruct line as [| c line].
    { intros H; inversion H; subst p'; cbn; auto. }
    destruct (split_ws (c :: line)) as [| t args].
    { intros H; inversion H; subst p'; auto. }
    intros H.
    repeat dmh; try discriminate; inversion H; subst p'; cbn; eauto.
  Qed.

  Lemma inv_top c p : lineno p = c -> pmode p = Top -> inv c p.
  Proof. intros Hl Hm. split; [exact Hl |]. rewrite Hm. cbn. discriminate. Qed.

  Lemma on_delimiter_shape p hl h sql :
    match on_delimiter p hl h sql with
    | SNext p' => lineno p' = lineno p /\ mode_line (pmode p') = Some hl
    | SFail _ n => n = hl
    | SPanic => True
    end.
  Proof. unfold on_delimiter. repeat dmg; cbn; auto. Qed.

  Lemma step_inv c p l :
    inv c p ->
    match step p l with
    | SNext p' => inv (c + 1) p'
    | SFail _ n => 1 <= n <= c + 1
    | SPanic => True
    end.
  Proof.
    destruct p as [rs cs cn cm ln m]. unfold inv at 1. cbn [lineno pmode].
    intros [Hl Hm]. subst ln.
    destruct m as [| hl h | hl h sql | hl h sql acc | hl h sql acc pend].
    - rewrite step_top. destruct (is_comment l).
      + apply inv_top; reflexivity.
      + destruct (top_line _ (c + 1) l) as [p' | k n |] eqn:E; [| | exact I].
        * apply top_line_next in E. rewrite flush_lineno, flush_mode in E.
          cbn [lineno pmode] in E. destruct E as [El [Em | [Em | [h Em]]]].
          -- apply inv_top; assumption.
          -- apply inv_top; assumption.
          -- split; [exact El |]. rewrite Em. cbn [mode_line].
             intros hl Hh. inversion Hh; subst hl. lia.
        * apply top_line_fail in E. subst n. lia.
    - specialize (Hm hl eq_refl).
      cbn. split; [reflexivity |]. cbn. intros x Hx. inversion Hx; subst x. lia.
    - specialize (Hm hl eq_refl).
      unfold Parser.step. cbn [pmode lineno recs pconds pconn pcomments].
      destruct l as [| ch l].
      + apply inv_top; apply emit_shape.
      + destruct (str_eqb (ch :: l) DELIM).
        * match goal with |- context [on_delimiter ?p ?a ?b ?d] =>
            pose proof (on_delimiter_shape p a b d) as S;
            destruct (on_delimiter p a b d) as [p' | k n |]
          end; [| subst n; lia | exact I].
          destruct S as [Sl Sm]. split; [exact Sl |].
          rewrite Sm. intros x Hx. inversion Hx; subst x. lia.
        * split; [reflexivity |]. cbn. intros x Hx. inversion Hx; subst x. lia.
    - specialize (Hm hl eq_refl).
      unfold Parser.step. cbn [pmode lineno recs pconds pconn pcomments].
      destruct l as [| ch l].
      + apply inv_top; apply emit_shape.
      + split; [reflexivity |]. cbn. intros x Hx. inversion Hx; subst x. lia.
    - specialize (Hm hl eq_refl).
      unfold Parser.step. cbn [pmode lineno recs pconds pconn pcomments].
      destruct l as [| ch l]; [destruct pend |].
      + apply inv_top; apply finish_multi_shape.
      + split; [reflexivity |]. cbn. intros x Hx. inversion Hx; subst x. lia.
      + split; [reflexivity |]. cbn. intros x Hx. inversion Hx; subst x. lia.
  Qed.

  Lemma run_inv ls : forall c p,
    inv c p ->
    match run_lines p ls with
    | SNext p' => inv (c + N.of_nat (length ls)) p'
    | SFail _ n => 1 <= n <= c + N.of_nat (length ls)
    | SPanic => True
    end.
  Proof.
    induction ls as [| l ls IH]; intros c p Hi.
    - cbn [Parser.run_lines length]. replace (c + N.of_nat 0) with c by lia. exact Hi.
    - cbn [Parser.run_lines length]. rewrite Nat2N.inj_succ.
      pose proof (step_inv c p l Hi) as S.
      destruct (step p l) as [p' | k n |]; [| lia | exact I].
      specialize (IH (c + 1) p' S).
      replace (c + N.succ (N.of_nat (length ls))) with (c + 1 + N.of_nat (length ls)) by lia.
      destruct (run_lines p' ls) as [p'' | k n |]; [exact IH | lia | exact I].
  Qed.

  Lemma inv0 : inv 0 pstate0.
  Proof. apply inv_top; reflexivity. Qed.

  Lemma run_lines_app a : forall p b,
    run_lines p (a ++ b) =
    match run_lines p a with SNext p' => run_lines p' b | e => e end.
  Proof.
    induction a as [| l a IH]; intros p b; cbn [app Parser.run_lines]; [reflexivity |].
    destruct (step p l) as [p' | k n |]; [apply IH | reflexivity | reflexivity].
  Qed.

  Lemma error_line_bound_sec ls k n :
    parse_lines_list ls = PErr k n -> 1 <= n <= N.of_nat (length ls) + 1.
  Proof.
    unfold Parser.parse_lines_list. intros H.
    pose proof (run_inv ls 0 pstate0 inv0) as R.
    destruct (run_lines pstate0 ls) as [p | k' n' |]; [| | discriminate].
    - destruct R as [Rl Rm]. unfold Parser.finish in H.
      destruct (pmode p) as [| hl h | hl h sql | hl h sql acc | hl h sql acc pend];
        try discriminate.
      specialize (Rm hl eq_refl). inversion H; subst. lia.
    - inversion H; subst. lia.
  Qed.

  Lemma reject_at_boundary_sec pre b post p k :
    run_lines pstate0 pre = SNext p -> pmode p = Top ->
    hd_error b <> Some 35 ->
    status_of col re b = LReject k ->
    parse_lines_list (pre ++ b :: post) = PErr k (N.of_nat (length pre) + 1).
  Proof.
    intros Hr Hm Hb Hs.
    unfold Parser.parse_lines_list. rewrite run_lines_app, Hr.
    pose proof (run_inv pre 0 pstate0 inv0) as R. rewrite Hr in R.
    destruct R as [Rl _].
    destruct p as [rs cs cn cm ln m]. cbn [pmode lineno] in Hm, Rl. subst m ln.
    cbn [Parser.run_lines]. rewrite step_top, (is_comment_hd b Hb).
    match goal with |- context [top_line ?q ?n b] =>
      pose proof (top_line_uniform col re file upper q n b) as U
    end.
    rewrite Hs in U. rewrite U.
    first [reflexivity | f_equal; lia].
  Qed.
End Bounds.

Theorem parse_error_line_bound :
  forall col re file upper ls k n,
    parse_lines_list col re file upper ls = PErr k n -> 1 <= n <= N.of_nat (length ls) + 1.
Proof. exact error_line_bound_sec. Qed.
Print Assumptions parse_error_line_bound.

Theorem reject_at_boundary :
  forall col re file upper pre b post p k,
    run_lines col re file upper pstate0 pre = SNext p -> pmode p = Top ->
    hd_error b <> Some 35 ->
    status_of col re b = LReject k ->
    parse_lines_list col re file upper (pre ++ b :: post) = PErr k (N.of_nat (length pre) + 1).
Proof. exact reject_at_boundary_sec. Qed.
Print Assumptions reject_at_boundary.

(* ------------------------------------------------------------------------- *)
(* 5. the accepted lines are exactly the documented grammar                    *)

Definition hstat {A} (h : hres A) : line_status :=
  match h with HOk _ => LAccept | HErr k => LReject k | HPanic => LPanic end.

Definition nonempty_words (ws : list str) : Prop := Forall (fun w : str => w <> []) ws.

Lemma frev_nonempty (c : N) cur : frev (c :: cur) <> [].
Proof.
  rewrite frev_rev. cbn [rev]. intros H. apply app_eq_nil in H. destruct H; discriminate.
Qed.

Lemma split_aux_nonempty p s : forall cur, nonempty_words (split_aux p cur s).
Proof.
  induction s as [| c s IH]; intros cur; cbn [split_aux].
  - destruct cur as [| x cur]; [constructor |].
    constructor; [apply frev_nonempty | constructor].
  - destruct (p c); [| apply IH].
    destruct cur as [| x cur]; [apply IH |].
    constructor; [apply frev_nonempty | apply IH].
Qed.

Lemma split_ws_nonempty line : nonempty_words (split_ws line).
Proof. apply split_aux_nonempty. Qed.

Lemma join_nil sep ws : nonempty_words ws -> join sep ws = [] -> ws = [].
Proof.
  destruct ws as [| x r]; [reflexivity |].
  intros Hn H. inversion Hn as [| ? ? Hx Hr]; subst.
  cbn [join] in H. destruct r.
  - contradiction.
  - apply app_eq_nil in H. destruct H; contradiction.
Qed.

Section Grammar.
  Variable col : N -> option N.
  Variable re : str -> bool.

  Notation valid_header := (valid_header col re).
  Notation valid_error_tail := (valid_error_tail re).
  Notation parse_statement_header := (parse_statement_header re).
  Notation parse_query_header := (parse_query_header col re).
  Notation parse_inline := (parse_inline re).

  (* the status of a line as a function of its words: top_line with the state erased *)
  Definition wstatus (ws : list str) : line_status :=
    match ws with
    | [] => LAccept
    | t :: args =>
        if kw "include" t then
          match args with [f] => LAccept | _ => LReject PInvalidLine end
        else if kw "halt" t then
          match args with [] => LAccept | _ => LReject PInvalidLine end
        else if kw "subtest" t then
          match args with [x] => LAccept | _ => LReject PInvalidLine end
        else if kw "sleep" t then
          match args with
          | [d] => match parse_duration d with
                   | DOk ns => LAccept
                   | DBad => LReject PInvalidDuration
                   | DPanic => LPanic
                   end
          | _ => LReject PInvalidLine
          end
        else if kw "skipif" t then
          match args with [x] => LAccept | _ => LReject PInvalidLine end
        else if kw "onlyif" t then
          match args with [x] => LAccept | _ => LReject PInvalidLine end
        else if kw "connection" t then
          match args with [x] => LAccept | _ => LReject PInvalidLine end
        else if kw "statement" t then hstat (parse_statement_header args)
        else if kw "query" t then hstat (parse_query_header args)
        else if kw "system" t then
          match args with
          | o :: rest => if kw "ok" o then hstat (parse_retry rest) else LReject PInvalidLine
          | [] => LReject PInvalidLine
          end
        else if kw "control" t then
          match args with
          | [what; v] =>
              if kw "resultmode" what then
                if kw "rowwise" v then LAccept
                else if kw "valuewise" v then LAccept
                else LReject PInvalidSortMode
              else if kw "sortmode" what then
                match parse_sortmode v with
                | Some m => LAccept
                | None => LReject PInvalidSortMode
                end
              else if kw "substitution" what then
                if kw "on" v then LAccept
                else if kw "off" v then LAccept
                else LReject PInvalidControl
              else LReject PInvalidLine
          | _ => LReject PInvalidLine
          end
        else if kw "hash-threshold" t then
          match args with
          | [x] => match parse_u64 x with
                   | Some v => LAccept
                   | None => LReject PInvalidNumber
                   end
          | _ => LReject PInvalidLine
          end
        else LReject PInvalidLine
    end.

  Lemma status_words line :
    status_of col re line = match line with [] => LAccept | _ => wstatus (split_ws line) end.
  Proof.
    unfold status_of, top_line, wstatus.
    destruct line as [| c line]; [reflexivity |].
    destruct (split_ws (c :: line)) as [| t args]; [reflexivity |].
    repeat dmg; reflexivity.
  Qed.

  (* retry clause *)
  Lemma hstat_with_retry ws f : hstat (with_retry ws f) = hstat (parse_retry ws).
  Proof. unfold with_retry. destruct (parse_retry ws); reflexivity. Qed.

  Lemma retry_accept ws : hstat (parse_retry ws) = LAccept <-> valid_retry ws.
  Proof.
    split.
    - unfold parse_retry. intros H.
      repeat dmh; try discriminate; [constructor |].
      repeat match goal with
             | E : negb _ = false |- _ => apply negb_false_iff in E
             end.
      kws.
      match goal with E : (_ =? 0) = false |- _ => apply N.eqb_neq in E end.
      econstructor; eassumption.
    - intros H. destruct H as [| a d n ns Ha Hn Hd]; [reflexivity |].
      unfold parse_retry. kwc. cbn [negb]. cbv beta iota.
      rewrite Ha. apply N.eqb_neq in Hn. rewrite Hn, Hd. reflexivity.
  Qed.

  (* what follows `error` *)
  Definition etail (ws : list str) : line_status :=
    if is_retry_shape ws then hstat (parse_retry ws) else hstat (parse_inline ws).

  Lemma etail_accept_rev ws : valid_error_tail ws -> etail ws = LAccept.
  Proof.
    intros H. unfold etail. destruct H as [r S V | r S V]; rewrite S.
    - apply retry_accept; exact V.
    - unfold Parser.parse_inline.
      destruct (join [32] r) as [| c j] eqn:J; [reflexivity |].
      destruct V as [V | V]; [subst r; discriminate | rewrite V; reflexivity].
  Qed.

  Lemma etail_accept ws : nonempty_words ws -> (etail ws = LAccept <-> valid_error_tail ws).
  Proof.
    intros Hn. unfold etail. split.
    - destruct (is_retry_shape ws) eqn:S; intros H.
      + apply ve_retry; [exact S | apply retry_accept; exact H].
      + apply ve_inline; [exact S |].
        unfold Parser.parse_inline in H.
        destruct (join [32] ws) as [| c j] eqn:J.
        * left. apply (join_nil [32]); assumption.
        * right. destruct (re (c :: j)); [reflexivity | discriminate].
    - apply etail_accept_rev.
  Qed.

  Lemma hstat_error_stmt rest :
    hstat (if is_retry_shape rest then with_retry rest (HStatement (SError EEmpty))
           else match parse_inline rest with
                | HOk e => HOk (HStatement (SError e) None)
                | HErr k => HErr k
                | HPanic => HPanic
                end) = etail rest.
  Proof.
    unfold etail. destruct (is_retry_shape rest); [apply hstat_with_retry |].
    destruct (parse_inline rest); reflexivity.
  Qed.

  Lemma hstat_error_query rest :
    hstat (if is_retry_shape rest then with_retry rest (HQuery (QError EEmpty))
           else match parse_inline rest with
                | HOk e => HOk (HQuery (QError e) None)
                | HErr k => HErr k
                | HPanic => HPanic
                end) = etail rest.
  Proof.
    unfold etail. destruct (is_retry_shape rest); [apply hstat_with_retry |].
    destruct (parse_inline rest); reflexivity.
  Qed.

  (* after the type string of a query *)
  Definition ltail (rest1 : list str) : list str :=
    match (match rest1 with
           | l :: _ => if kw "retry" l then None else Some l
           | [] => None
           end) with
    | Some _ => tl rest1
    | None => rest1
    end.

  Definition qtail (rest : list str) : list str :=
    ltail (match (match rest with s :: _ => parse_sortmode s | [] => None end) with
           | Some _ => tl rest
           | None => rest
           end).

  Lemma ltail_accept rest :
    hstat (parse_retry (ltail rest)) = LAccept <-> valid_label_tail rest.
  Proof.
    split.
    - destruct rest as [| l r]; unfold ltail.
      + intros H. apply vl_nolabel; [exact I | apply retry_accept; exact H].
      + destruct (kw "retry" l) eqn:K; cbn [tl]; intros H.
        * apply vl_nolabel; [exact K | apply retry_accept; exact H].
        * apply vl_label; [exact K | apply retry_accept; exact H].
    - intros H. destruct H as [l r K V | r K V]; unfold ltail.
      + rewrite K. cbn [tl]. apply retry_accept; exact V.
      + destruct r as [| l r]; [apply retry_accept; exact V |].
        rewrite K. apply retry_accept; exact V.
  Qed.

  Lemma qtail_accept rest :
    hstat (parse_retry (qtail rest)) = LAccept <-> valid_query_tail rest.
  Proof.
    unfold qtail. split.
    - destruct rest as [| s r].
      + intros H. apply vq_nosort; [exact I | apply ltail_accept; exact H].
      + destruct (parse_sortmode s) as [m |] eqn:S; cbn [tl]; intros H.
        * apply vq_sort; [congruence | apply ltail_accept; exact H].
        * apply vq_nosort; [exact S | apply ltail_accept; exact H].
    - intros H. destruct H as [s r S V | r S V].
      + destruct (parse_sortmode s) as [m |]; [| congruence].
        cbn [tl]. apply ltail_accept; exact V.
      + destruct r as [| s r]; [apply ltail_accept; exact V |].
        rewrite S. apply ltail_accept; exact V.
  Qed.

  Lemma hstat_query_results t types rest :
    kw "error" t = false -> parse_types col t = Some types ->
    hstat (parse_query_header (t :: rest)) = hstat (parse_retry (qtail rest)).
  Proof.
    intros K T. unfold Parser.parse_query_header. rewrite K, T. cbv zeta.
    rewrite hstat_with_retry. reflexivity.
  Qed.

  Lemma nonempty_tl (x : str) ws : nonempty_words (x :: ws) -> nonempty_words ws.
  Proof. intros H. inversion H; assumption. Qed.

  (* code => grammar *)
  Lemma wstatus_valid ws :
    nonempty_words ws -> ws <> [] -> wstatus ws = LAccept -> valid_header ws.
  Proof.
    intros Hn Hne. destruct ws as [| t args]; [congruence |]. clear Hne.
    apply nonempty_tl in Hn.
    unfold wstatus.
    destruct (kw "include" t) eqn:K1.
    { kws. intros H. repeat dmh; try discriminate. constructor. }
    destruct (kw "halt" t) eqn:K2.
    { kws. intros H. repeat dmh; try discriminate. constructor. }
    destruct (kw "subtest" t) eqn:K3.
    { kws. intros H. repeat dmh; try discriminate. constructor. }
    destruct (kw "sleep" t) eqn:K4.
    { kws. intros H. repeat dmh; try discriminate. econstructor; eassumption. }
    destruct (kw "skipif" t) eqn:K5.
    { kws. intros H. repeat dmh; try discriminate. constructor. }
    destruct (kw "onlyif" t) eqn:K6.
    { kws. intros H. repeat dmh; try discriminate. constructor. }
    destruct (kw "connection" t) eqn:K7.
    { kws. intros H. repeat dmh; try discriminate. constructor. }
    destruct (kw "statement" t) eqn:K8.
    { kws. clear K1 K2 K3 K4 K5 K6 K7.
      unfold Parser.parse_statement_header.
      destruct args as [| a rest]; [discriminate |].
      apply nonempty_tl in Hn.
      destruct (kw "ok" a) eqn:A1.
      { kws. rewrite hstat_with_retry. intros H.
        apply vh_statement_ok. apply retry_accept; exact H. }
      destruct (kw "error" a) eqn:A2.
      { kws. rewrite hstat_error_stmt. intros H.
        apply vh_statement_error. apply etail_accept; assumption. }
      destruct (kw "count" a) eqn:A3; [| discriminate].
      kws. destruct rest as [| c rest]; [discriminate |].
      destruct (parse_u64 c) as [n |] eqn:C; [| discriminate].
      rewrite hstat_with_retry. intros H.
      eapply vh_statement_count; [exact C | apply retry_accept; exact H]. }
    destruct (kw "query" t) eqn:K9.
    { kws. clear K1 K2 K3 K4 K5 K6 K7 K8.
      destruct args as [| a rest]; [intros _; apply vh_query_bare |].
      apply nonempty_tl in Hn.
      destruct (kw "error" a) eqn:A1.
      { unfold Parser.parse_query_header. rewrite A1. kws.
        rewrite hstat_error_query. intros H.
        apply vh_query_error. apply etail_accept; assumption. }
      destruct (parse_types col a) as [types |] eqn:T.
      - rewrite (hstat_query_results a types rest A1 T). intros H.
        eapply vh_query_results; [exact A1 | exact T | apply qtail_accept; exact H].
      - unfold Parser.parse_query_header. rewrite A1, T. discriminate. }
    destruct (kw "system" t) eqn:K10.
    { kws. intros H. repeat dmh; try discriminate. kws.
      apply vh_system. apply retry_accept. assumption. }
    destruct (kw "control" t) eqn:K11.
    { kws. intros H.
      repeat dmh; try discriminate; kws;
        first [ apply vh_control_result; auto using kw_lit
              | apply vh_control_subst; auto using kw_lit
              | apply vh_control_sort; congruence ]. }
    destruct (kw "hash-threshold" t) eqn:K12; [| discriminate].
    kws. intros H. repeat dmh; try discriminate. econstructor; eassumption.
  Qed.

  (* grammar => code *)
  Lemma valid_wstatus ws : valid_header ws -> wstatus ws = LAccept.
  Proof.
    intros H.
    destruct H as [ f | | x | d ns Hd | l | l | x | r Hr | c n r Hc Hr | t Ht | | t Ht
                  | tw types rest Ke Ht Hq | r Hr | m Hm | m Hm | v Hv | t n Ht ];
      unfold wstatus; kwc; cbv beta iota.
    - reflexivity.
    - reflexivity.
    - reflexivity.
    - rewrite Hd. reflexivity.
    - reflexivity.
    - reflexivity.
    - reflexivity.
    - unfold Parser.parse_statement_header. kwc. cbv beta iota.
      rewrite hstat_with_retry. apply retry_accept; exact Hr.
    - unfold Parser.parse_statement_header. kwc. cbv beta iota.
      rewrite Hc, hstat_with_retry. apply retry_accept; exact Hr.
    - unfold Parser.parse_statement_header. kwc. cbv beta iota.
      rewrite hstat_error_stmt. apply etail_accept_rev; exact Ht.
    - reflexivity.
    - unfold Parser.parse_query_header. kwc. cbv beta iota.
      rewrite hstat_error_query. apply etail_accept_rev; exact Ht.
    - rewrite (hstat_query_results tw types rest Ke Ht). apply qtail_accept; exact Hq.
    - apply retry_accept; exact Hr.
    - destruct (parse_sortmode m); [reflexivity | congruence].
    - destruct Hm as [Hm | Hm]; rewrite Hm; [reflexivity |].
      destruct (kw "rowwise" m); reflexivity.
    - destruct Hv as [Hv | Hv]; rewrite Hv; [reflexivity |].
      destruct (kw "on" v); reflexivity.
    - rewrite Ht. reflexivity.
  Qed.
End Grammar.

Theorem accept_iff_valid_header :
  forall col re line,
    split_ws line <> [] -> dur_safe_words (split_ws line) ->
    (status_of col re line = LAccept <-> valid_header col re (split_ws line)).
Proof.
  intros col re line Hne _.
  rewrite status_words.
  destruct line as [| c line]; [exfalso; apply Hne; reflexivity |].
  split.
  - apply wstatus_valid; [apply split_ws_nonempty | exact Hne].
  - apply valid_wstatus.
Qed.
Print Assumptions accept_iff_valid_header.
