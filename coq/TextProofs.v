(* TextProofs.v — lemmas about the text primitives of Text.v: frev/rev, lines,
   split_aux / split_ws, trim, join, and the dec / parse_u64 round trip. *)
From SLT Require Import Base Text.
Open Scope N_scope.

(* lia with the div/mod terms abstracted *)
Ltac dm_lia :=
  repeat match goal with
         | H : context [?a mod ?b] |- _ => generalize dependent (a mod b)
         | H : context [?a / ?b] |- _ => generalize dependent (a / b)
         | |- context [?a mod ?b] => generalize dependent (a mod b)
         | |- context [?a / ?b] => generalize dependent (a / b)
         end; intros; lia.

(* ---- frev *)
Lemma frev_involutive {A} (l : list A) : frev (frev l) = l.
Proof. rewrite !frev_rev. apply rev_involutive. Qed.

Lemma frev_rev_id {A} (l : list A) : frev (rev l) = l.
Proof. rewrite frev_rev. apply rev_involutive. Qed.

Lemma rev_nonnil {A} (l : list A) : l <> [] -> rev l <> [].
Proof.
  intros Hl Hr. apply Hl. rewrite <- (rev_involutive l), Hr. reflexivity.
Qed.

(* ---- white space facts *)
Lemma is_ws_LF : is_ws 10 = true. Proof. reflexivity. Qed.
Lemma is_ws_SP : is_ws 32 = true. Proof. reflexivity. Qed.

Lemma is_digit_range c : is_digit c = true -> 48 <= c <= 57.
Proof.
  unfold is_digit. intros H. apply andb_true_iff in H as [H1 H2].
  apply N.leb_le in H1. apply N.leb_le in H2. lia.
Qed.

Lemma is_digit_not_ws c : is_digit c = true -> is_ws c = false.
Proof.
  intros H. apply is_digit_range in H.
  assert (Hc : c = 48 \/ c = 49 \/ c = 50 \/ c = 51 \/ c = 52 \/ c = 53 \/ c = 54 \/
               c = 55 \/ c = 56 \/ c = 57) by lia.
  repeat (destruct Hc as [Hc | Hc]; [subst c; reflexivity|]). subst c; reflexivity.
Qed.

(* ---- split_aux *)
Section Split.
  Variable p : N -> bool.

  Lemma split_aux_word t : forall cur s,
    Forall (fun c => p c = false) t ->
    split_aux p cur (t ++ s) = split_aux p (rev t ++ cur) s.
  Proof.
    induction t as [|c t IH]; intros cur s H.
    - reflexivity.
    - inversion H as [|c' t' Hc Ht]; subst.
      cbn [app split_aux rev]. rewrite Hc. rewrite IH by assumption.
      rewrite <- app_assoc. reflexivity.
  Qed.

  Lemma split_aux_blank0 b : forall s,
    Forall (fun c => p c = true) b ->
    split_aux p [] (b ++ s) = split_aux p [] s.
  Proof.
    induction b as [|c b IH]; intros s H.
    - reflexivity.
    - inversion H as [|c' b' Hc Hb]; subst.
      cbn [app split_aux]. rewrite Hc. apply IH; assumption.
  Qed.

  Lemma split_aux_blank1 b cur s :
    cur <> [] -> b <> [] -> Forall (fun c => p c = true) b ->
    split_aux p cur (b ++ s) = frev cur :: split_aux p [] s.
  Proof.
    intros Hcur Hb H. destruct b as [|c b]; [contradiction|].
    inversion H as [|c' b' Hc Hb']; subst.
    cbn [app split_aux]. rewrite Hc.
    destruct cur as [|x cur]; [contradiction|].
    f_equal. apply split_aux_blank0; assumption.
  Qed.

  Lemma split_word_blank t b s :
    t <> [] -> Forall (fun c => p c = false) t ->
    b <> [] -> Forall (fun c => p c = true) b ->
    split_aux p [] (t ++ b ++ s) = t :: split_aux p [] s.
  Proof.
    intros Ht Hw Hb Hbl.
    rewrite split_aux_word by assumption. rewrite app_nil_r.
    rewrite split_aux_blank1; try assumption.
    - rewrite frev_rev_id. reflexivity.
    - apply rev_nonnil; assumption.
  Qed.

  Lemma split_word_trail t b :
    t <> [] -> Forall (fun c => p c = false) t ->
    Forall (fun c => p c = true) b ->
    split_aux p [] (t ++ b) = [t].
  Proof.
    intros Ht Hw Hbl.
    destruct b as [|c b].
    - rewrite split_aux_word by assumption. rewrite app_nil_r.
      cbn [split_aux]. pose proof (rev_nonnil t Ht) as Hr.
      destruct (rev t) as [|x r] eqn:E; [contradiction|].
      rewrite <- E. rewrite frev_rev_id. reflexivity.
    - rewrite <- (app_nil_r (c :: b)).
      rewrite split_word_blank; try assumption; [reflexivity | discriminate].
  Qed.

  (* the first word of a line starts with the first non-blank character *)
  Lemma split_aux_first : forall s cur t args,
    cur <> [] -> split_aux p cur s = t :: args -> exists t', t = rev cur ++ t'.
  Proof.
    induction s as [|c s IH]; intros cur t args Hcur H.
    - cbn [split_aux] in H. destruct cur as [|x cur]; [contradiction|].
      inversion H; subst. exists []. rewrite app_nil_r. apply frev_rev.
    - cbn [split_aux] in H. destruct (p c).
      + destruct cur as [|x cur]; [contradiction|].
        inversion H; subst. exists []. rewrite app_nil_r. apply frev_rev.
      + apply IH in H; [|discriminate]. destruct H as [t' ->].
        cbn [rev]. rewrite <- app_assoc. eexists; reflexivity.
  Qed.
End Split.

(* ---- lines *)
Lemma lines_aux_noLF l : forall cur s,
  ~ In 10 l -> lines_aux cur (l ++ s) = lines_aux (rev l ++ cur) s.
Proof.
  induction l as [|c l IH]; intros cur s H.
  - reflexivity.
  - cbn [app lines_aux rev].
    destruct (N.eqb_spec c 10) as [E|E].
    + exfalso. apply H. left. assumption.
    + rewrite IH.
      * rewrite <- app_assoc. reflexivity.
      * intros Hin. apply H. right. assumption.
Qed.

Lemma strip_cr_rev_rev l : last l 0 <> 13 -> strip_cr_rev (rev l) = l.
Proof.
  rewrite <- (rev_involutive l) at 1 3. generalize (rev l) as m. intros m H.
  destruct m as [|c m].
  - reflexivity.
  - cbn [rev] in H. rewrite last_last in H.
    cbn [strip_cr_rev]. destruct (N.eqb_spec c 13) as [E|E]; [contradiction|].
    apply frev_rev.
Qed.

Lemma strip_cr_rev_cr l : strip_cr_rev (13 :: rev l) = l.
Proof. cbn [strip_cr_rev]. rewrite N.eqb_refl. apply frev_rev_id. Qed.

Lemma lines_line_lf l rest :
  ~ In 10 l -> last l 0 <> 13 -> lines (l ++ [10] ++ rest) = l :: lines rest.
Proof.
  intros H1 H2. unfold lines. rewrite lines_aux_noLF by assumption.
  rewrite app_nil_r. cbn [app lines_aux]. rewrite N.eqb_refl.
  rewrite strip_cr_rev_rev by assumption. reflexivity.
Qed.

Lemma lines_line_crlf l rest :
  ~ In 10 l -> lines (l ++ [13; 10] ++ rest) = l :: lines rest.
Proof.
  intros H1. unfold lines. rewrite lines_aux_noLF by assumption.
  rewrite app_nil_r. cbn [app lines_aux].
  replace (13 =? 10) with false by reflexivity. rewrite N.eqb_refl.
  rewrite strip_cr_rev_cr. reflexivity.
Qed.

Lemma lines_last_nonempty l :
  ~ In 10 l -> l <> [] -> lines l = [l].
Proof.
  intros H1 H2. unfold lines. rewrite <- (app_nil_r l) at 1.
  rewrite lines_aux_noLF by assumption. rewrite app_nil_r. cbn [lines_aux].
  pose proof (rev_nonnil l H2) as Hr.
  destruct (rev l) as [|x r] eqn:E; [contradiction|].
  rewrite <- E. rewrite frev_rev_id. reflexivity.
Qed.

(* ---- trim *)
Lemma drop_while_hd p s :
  (forall c, hd_error s = Some c -> p c = false) -> drop_while p s = s.
Proof.
  destruct s as [|c s]; intros H; [reflexivity|].
  cbn [drop_while]. rewrite (H c eq_refl). reflexivity.
Qed.

Lemma trim_nl s :
  s <> [] -> (forall c, hd_error s = Some c -> is_ws c = false) ->
  is_ws (last s 0) = false -> trim (s ++ [10]) = s.
Proof.
  intros Hs Hh Hl. unfold trim, trim_start, trim_end.
  rewrite (drop_while_hd is_ws (s ++ [10])).
  - rewrite (frev_rev (s ++ [10])), rev_app_distr. cbn [rev app drop_while].
    rewrite is_ws_LF. rewrite drop_while_hd.
    + apply frev_rev_id.
    + intros c Hc. rewrite <- (rev_involutive s) in Hl.
      destruct (rev s) as [|x m]; [discriminate|].
      cbn [hd_error] in Hc. inversion Hc; subst.
      cbn [rev] in Hl. rewrite last_last in Hl. assumption.
  - intros c Hc. apply Hh. destruct s as [|x s]; [contradiction|]. exact Hc.
Qed.

(* ---- join *)
Lemma join_cons2 sep a b l : join sep (a :: b :: l) = a ++ sep ++ join sep (b :: l).
Proof. reflexivity. Qed.

Lemma join_snoc sep l x : l <> [] -> join sep (l ++ [x]) = join sep l ++ sep ++ x.
Proof.
  induction l as [|a l IH]; intros H; [contradiction|].
  destruct l as [|b l].
  - reflexivity.
  - change ((a :: b :: l) ++ [x]) with (a :: b :: (l ++ [x])).
    rewrite !join_cons2. change (b :: l ++ [x]) with ((b :: l) ++ [x]).
    rewrite IH by discriminate. rewrite <- !app_assoc. reflexivity.
Qed.

Lemma flat_map_nl_join (t : list str) :
  t <> [] -> flat_map (fun l => l ++ [10]) t = join [10] t ++ [10].
Proof.
  induction t as [|a t IH]; intros H; [contradiction|].
  destruct t as [|b t].
  - cbn. rewrite app_nil_r. reflexivity.
  - cbn [flat_map]. cbn [flat_map] in IH. rewrite IH by discriminate.
    rewrite join_cons2. rewrite <- !app_assoc. reflexivity.
Qed.

Lemma join_nonnil sep (t : list str) : t <> [] -> hd [] t <> [] -> join sep t <> [].
Proof.
  destruct t as [|a t]; intros H1 H2; [contradiction|]. cbn [hd] in H2.
  destruct t as [|b t]; [exact H2|]. rewrite join_cons2.
  destruct a; [contradiction | discriminate].
Qed.

Lemma join_hd sep (t : list str) :
  hd [] t <> [] -> hd_error (join sep t) = hd_error (hd [] t).
Proof.
  destruct t as [|a t]; intros H; [reflexivity|]. cbn [hd] in *.
  destruct t as [|b t]; [reflexivity|]. rewrite join_cons2.
  destruct a; [contradiction | reflexivity].
Qed.

Lemma last_app_nonnil {A} (a b : list A) d : b <> [] -> last (a ++ b) d = last b d.
Proof.
  intros Hb. induction a as [|x a IH]; [reflexivity|].
  cbn [app]. destruct (a ++ b) eqn:E.
  - apply app_eq_nil in E. destruct E; contradiction.
  - exact IH.
Qed.

Lemma join_last sep (t : list str) d :
  last t [] <> [] -> last (join sep t) d = last (last t []) d.
Proof.
  induction t as [|a t IH]; intros H; [reflexivity|].
  destruct t as [|b t]; [reflexivity|].
  rewrite join_cons2. change (last (a :: b :: t) []) with (last (b :: t) []) in *.
  specialize (IH H).
  assert (Hn : join sep (b :: t) <> []).
  { intros E. rewrite E in IH. cbn [last] in IH.
    (* last (last (b::t) []) d = d does not contradict directly; argue on structure *)
    clear IH. revert b E H. induction t as [|c t IHt]; intros b E H.
    - cbn in E. cbn in H. contradiction.
    - rewrite join_cons2 in E. apply app_eq_nil in E as [_ E].
      apply app_eq_nil in E as [_ E]. apply (IHt c E). exact H. }
  rewrite app_assoc. rewrite last_app_nonnil by assumption. exact IH.
Qed.

(* ---- dec / parse_u64 *)
Lemma dec_aux_S f n acc :
  dec_aux (S f) n acc =
  if n / 10 =? 0 then (48 + n mod 10) :: acc else dec_aux f (n / 10) ((48 + n mod 10) :: acc).
Proof. reflexivity. Qed.

Lemma dec_aux_app f : forall n acc, dec_aux f n acc = dec_aux f n [] ++ acc.
Proof.
  induction f as [|f IH]; intros n acc.
  - reflexivity.
  - rewrite !dec_aux_S. destruct (n / 10 =? 0); [reflexivity|].
    rewrite IH. rewrite (IH _ [_]). rewrite <- app_assoc. reflexivity.
Qed.

Lemma digits_val_app s1 : forall a s2,
  digits_val a (s1 ++ s2) =
  match digits_val a s1 with Some v => digits_val v s2 | None => None end.
Proof.
  induction s1 as [|c s1 IH]; intros a s2; [reflexivity|].
  cbn [app digits_val]. destruct (is_digit c); [apply IH | reflexivity].
Qed.

Lemma is_digit_d n : is_digit (48 + n mod 10) = true.
Proof.
  pose proof (N.mod_lt n 10 ltac:(discriminate)) as H.
  unfold is_digit. apply andb_true_iff. split; apply N.leb_le; dm_lia.
Qed.

Lemma dec_aux_val f : forall n, n < 2 ^ N.of_nat f -> digits_val 0 (dec_aux (S f) n []) = Some n.
Proof.
  induction f as [|f IH]; intros n H.
  - change (2 ^ N.of_nat 0) with 1 in H. assert (n = 0) by lia. subst n. reflexivity.
  - rewrite dec_aux_S. destruct (N.eqb_spec (n / 10) 0) as [E|E].
    + cbn [digits_val]. rewrite is_digit_d. f_equal.
      pose proof (N.div_mod n 10 ltac:(discriminate)). dm_lia.
    + rewrite dec_aux_app, digits_val_app. rewrite IH.
      * cbn [digits_val]. rewrite is_digit_d. f_equal.
        pose proof (N.div_mod n 10 ltac:(discriminate)). dm_lia.
      * apply N.div_lt_upper_bound; [discriminate|].
        rewrite Nat2N.inj_succ, N.pow_succ_r' in H. lia.
Qed.

Lemma size_nat_bound n : n < 2 ^ N.of_nat (N.size_nat n).
Proof.
  destruct n as [|p]; [reflexivity|]. cbn [N.size_nat].
  induction p as [p IH|p IH|]; cbn [Pos.size_nat].
  - rewrite Nat2N.inj_succ, N.pow_succ_r'. lia.
  - rewrite Nat2N.inj_succ, N.pow_succ_r'. lia.
  - reflexivity.
Qed.

Lemma dec_val n : digits_val 0 (dec n) = Some n.
Proof. unfold dec. apply dec_aux_val. apply size_nat_bound. Qed.

Lemma dec_aux_digits f : forall n acc,
  Forall (fun c => is_digit c = true) acc ->
  Forall (fun c => is_digit c = true) (dec_aux f n acc).
Proof.
  induction f as [|f IH]; intros n acc H; [exact H|].
  rewrite dec_aux_S. destruct (n / 10 =? 0).
  - constructor; [apply is_digit_d | exact H].
  - apply IH. constructor; [apply is_digit_d | exact H].
Qed.

Lemma dec_digits n : Forall (fun c => is_digit c = true) (dec n).
Proof. unfold dec. apply dec_aux_digits. constructor. Qed.

Lemma dec_nonnil n : dec n <> [].
Proof.
  unfold dec. rewrite dec_aux_S. destruct (n / 10 =? 0); [discriminate|].
  rewrite dec_aux_app. intros E. apply app_eq_nil in E as [_ E]. discriminate.
Qed.

Lemma dec_no_ws n : Forall (fun c => is_ws c = false) (dec n).
Proof.
  eapply Forall_impl; [|apply dec_digits]. intros c. apply is_digit_not_ws.
Qed.

Lemma parse_u64_dec n : n <= U64MAX -> parse_u64 (dec n) = Some n.
Proof.
  intros Hn. unfold parse_u64.
  pose proof (dec_nonnil n) as Hne. pose proof (dec_digits n) as Hd.
  pose proof (dec_val n) as Hv.
  destruct (dec n) as [|c r]; [contradiction|].
  inversion Hd as [|c' r' Hc Hr]; subst.
  apply is_digit_range in Hc.
  destruct (N.eqb_spec c 43) as [E|E]; [lia|].
  rewrite Hv. apply N.leb_le in Hn. rewrite Hn. reflexivity.
Qed.
