(* Entry.v — executable entry points of the model, one per correspondence family:
   decode a case, run the model, encode the observable. *)
From SLT Require Export Decode Runner Parser Unparse FsTrim Include Update Subst Framing Partition Cli Par Driver Serial.
Open Scope N_scope.

Definition e_event (e : event) : val :=
  match e with
  | EConnect id => vtag "connect" [VN id]
  | EConnectFail k => vtag "connect-fail" [VN k]
  | ESql id s => vtag "sql" [VN id; VS s]
  | ECmd c => vtag "cmd" [VS (lit "bash"); VS (lit "-c"); VS c]
  | EBackground c => vtag "bg" [VS c]
  | ESleep d => vtag "sleep" [VN (d / NANOS); VN (d mod NANOS)]
  | EShutdown id => vtag "shutdown" [VN id]
  | EPanicked => vtag "panicked" []
  end.

Definition d_ans (v : val) : ans := if tag_is v "echo" then AEcho else AOut (d_dbout v).

Definition e_final (f : final) : val :=
  match f with
  | FOk => vtag "ok" []
  | FErr k l => vtag "err" [VN (kind_code k); VN 0; e_loc l]
  | FBug => vtag "unreachable" []
  end.

Definition e_result (r : record) (p : routput * verdict) : val :=
  match snd p with
  | Pass => vtag "ok" [e_routput (fst p)]
  | Fail k => vtag "err" [VN (kind_code k); VN 0; e_loc (record_loc r)]
  | Unreachable => vtag "unreachable" []
  end.

(* Runner::may_substitute with substitution on: subst::substitute for SQL, simple_replace for
   commands; the process environment is the oracle table [env] *)
Definition real_subst (env : list (str * str)) (is_sql : bool) (vars : list (str * str)) (s : str) : subres :=
  if is_sql then
    match substitute_sql (fun k => assoc_str k env) vars s with
    | SText t => SubOk t
    | SErrMsg m => SubErr m
    | SPanicked => SubPanic
    end
  else SubOk (substitute_cmd vars s).
Definition no_subst := real_subst [].

Definition is_epanic (e : event) : bool := match e with EPanicked => true | _ => false end.

Section RunFamily.
  Variable substitute : bool -> list (str * str) -> str -> subres.

  (* case = [mode; records; oracle; strict; labels; vars; threshold; engine;
             answers; default; make_fail; sys; sys_default; shutdown] *)
  Definition run_records_with (dflt : bool) (rs : list record) (v : val) : val :=
    let mode := get_s (arg 0 v) in
    let re := tbl_lookup (get_l (arg 2 v)) dflt in
    let st := mkRState (mkConfig None None (get_n (arg 6 v)) (get_b (arg 3 v))) false
                       (d_strs (arg 4 v))
                       []
                       (map (fun p => (get_s (arg 0 p), get_s (arg 1 p))) (get_l (arg 5 v))) in
    let sc := mkScript (map d_ans (get_l (arg 8 v))) (d_ans (arg 9 v))
                       (map get_n (get_l (arg 10 v)))
                       (map d_sysout (get_l (arg 11 v))) (d_sysout (arg 12 v))
                       (get_s (arg 7 v)) in
    let too_many := existsb (fun r => match record_retry r with
                                      | Some rt => 1000 <? attempts rt | None => false end) rs in
    if too_many then VS (lit "retry-attempts-too-large-for-model") else
    if str_eqb mode (lit "each") then
      let '(ev, st', w', l) := run_each re substitute sc st world0 rs in
      if existsb is_epanic ev then VS (lit "panic") else
      let ev := if get_b (arg 13 v) then ev ++ shutdown_all st' else ev in
      VL [VL (map (fun p => e_result (fst p) (snd p)) (combine rs l)); vlist e_event ev]
    else
      let '(ev, st', w', f) := run_multi re substitute sc st world0 rs in
      if existsb is_epanic ev then VS (lit "panic") else
      let ev := if get_b (arg 13 v) then ev ++ shutdown_all st' else ev in
      VL [e_final f; vlist e_event ev].

  Definition run_case_with (dflt : bool) (v : val) : val :=
    run_records_with dflt (map d_record (get_l (arg 1 v))) v.
End RunFamily.

Definition d_pairs (v : val) : list (str * str) :=
  map (fun p => (get_s (arg 0 p), get_s (arg 1 p))) (get_l v).

(* run-case argument 14: the process environment [[name, value]...] *)
Definition run_case (v : val) : val :=
  let sub := real_subst (d_pairs (arg 14 v)) in
  let a := run_case_with sub false v in
  let b := run_case_with sub true v in
  if val_eqb a b then a else VS (lit "oracle-miss").

(* ---- family "parse": case = [text; two-letter column type?; re_valid table [[pattern, bool]...]] *)
Fixpoint tbl1_lookup (tbl : list val) (dflt : bool) (s : str) : bool :=
  match tbl with
  | [] => dflt
  | e :: r => if str_eqb (get_s (arg 0 e)) s then get_b (arg 1 e) else tbl1_lookup r dflt s
  end.

Definition e_presult (r : presult) : val :=
  match r with
  | POk rs => vtag "ok" [vlist e_record rs]
  | PErr k n => vtag "err" [VN (pkind_code k); VN n]
  | PPanic => vtag "panic" []
  end.

Definition parse_case_with (dflt : bool) (v : val) : val :=
  let col := if get_b (arg 1 v) then two_col else default_col in
  e_presult (parse col (tbl1_lookup (get_l (arg 2 v)) dflt) (lit "t.slt") None (get_s (arg 0 v))).

Definition parse_case (v : val) : val :=
  let a := parse_case_with false v in
  let b := parse_case_with true v in
  if val_eqb a b then a else VS (lit "oracle-miss").

(* ---- family "format": [text; two?; re_valid] -> [parse; fmt; reparse; fmt2] *)
Definition e_fmt (o : option str) : val :=
  match o with Some s => vtag "ok" [VS s] | None => vtag "panic" [] end.

Definition format_case_with (dflt : bool) (v : val) : val :=
  let col := if get_b (arg 1 v) then two_col else default_col in
  let p := parse col (tbl1_lookup (get_l (arg 2 v)) dflt) (lit "t.slt") None in
  match p (get_s (arg 0 v)) with
  | POk rs =>
      match write_records rs with
      | None => VL [e_presult (POk rs); e_fmt None]
      | Some f1 =>
          match p f1 with
          | POk rs2 => VL [e_presult (POk rs); e_fmt (Some f1); e_presult (POk rs2); e_fmt (write_records rs2)]
          | other => VL [e_presult (POk rs); e_fmt (Some f1); e_presult other]
          end
      end
  | other => VL [e_presult other]
  end.

Definition format_case (v : val) : val :=
  let a := format_case_with false v in
  let b := format_case_with true v in
  if val_eqb a b then a else VS (lit "oracle-miss").

(* ---- family "trim": bytes -> the trailing-newline trimmer *)
Definition trim_case (v : val) : val :=
  match trim_tail (get_s v) with
  | TOk b => vtag "ok" [VS b]
  | TPanic => vtag "panic" []
  end.

(* ---- family "file": [main; fs table; glob table; two?; re_valid; run-case or []] *)
Fixpoint fs_lookup (tbl : list val) (p : str) : option fentry :=
  match tbl with
  | [] => None
  | e :: r =>
      if str_eqb (get_s (arg 0 e)) p then
        (if tag_is (VL [arg 1 e]) "file" then Some (FFile (get_s (arg 2 e)))
         else if tag_is (VL [arg 1 e]) "dir" then Some FDir
         else if tag_is (VL [arg 1 e]) "binary" then Some FBinary
         else None)
      else fs_lookup r p
  end.

Fixpoint glob_lookup (tbl : list val) (p : str) : globres :=
  match tbl with
  | [] => GOk []
  | e :: r =>
      if str_eqb (get_s (arg 0 e)) p then
        (if tag_is (VL [arg 1 e]) "ok" then GOk (d_strs (arg 2 e))
         else if tag_is (VL [arg 1 e]) "bad" then GBadPattern else GUnreadable)
      else glob_lookup r p
  end.

Definition e_fpres (r : fpres) : val :=
  match r with
  | FOkR rs => vtag "ok" [vlist e_record rs]
  | FErrR k l => vtag "err" [VN k; e_loc l]
  | FPanicR => vtag "panic" []
  | FOutOfFuel => vtag "out-of-fuel" []
  end.

Definition file_case_with (dflt : bool) (v : val) : val :=
  let col := if get_b (arg 3 v) then two_col else default_col in
  let fuel := S (S (length (get_l (arg 1 v)))) in
  let pr := parse_file col (tbl1_lookup (get_l (arg 4 v)) dflt)
                       (fs_lookup (get_l (arg 1 v))) (glob_lookup (get_l (arg 2 v))) fuel (get_s (arg 0 v)) in
  match arg 5 v with
  | VL [] => VL [e_fpres pr]
  | rc =>
      match pr with
      | FOkR rs => VL [e_fpres pr; run_records_with (real_subst (d_pairs (arg 14 rc))) dflt rs rc]
      | FErrR k l => VL [e_fpres pr; VL [vtag "err" [VN 0; VN k; e_loc l]; VL []]]
      | _ => VL [e_fpres pr; VL [vtag "panic" []; VL []]]
      end
  end.

Definition file_case (v : val) : val :=
  let a := file_case_with false v in
  let b := file_case_with true v in
  if val_eqb a b then a else VS (lit "oracle-miss").

(* ---- family "update": [main; fs; glob; two?; re_valid; run-case; sep; format_only] *)
Definition e_written (l : list (str * list N)) : val :=
  vlist (fun p => VL [VS (fst p); VS (snd p)]) l.

Definition update_case_with (dflt : bool) (v : val) : val :=
  let col := if get_b (arg 3 v) then two_col else default_col in
  let fuel := S (S (length (get_l (arg 1 v)))) in
  let pr := parse_file col (tbl1_lookup (get_l (arg 4 v)) dflt)
                       (fs_lookup (get_l (arg 1 v))) (glob_lookup (get_l (arg 2 v))) fuel (get_s (arg 0 v)) in
  let rc := arg 5 v in
  match pr with
  | FOkR rs =>
      let re := tbl_lookup (get_l (arg 2 rc)) dflt in
      let st := mkRState (mkConfig None None (get_n (arg 6 rc)) (get_b (arg 3 rc))) false
                         (d_strs (arg 4 rc)) []
                         (map (fun p => (get_s (arg 0 p), get_s (arg 1 p))) (get_l (arg 5 rc))) in
      let sc := mkScript (map d_ans (get_l (arg 8 rc))) (d_ans (arg 9 rc))
                         (map get_n (get_l (arg 10 rc)))
                         (map d_sysout (get_l (arg 11 rc))) (d_sysout (arg 12 rc))
                         (get_s (arg 7 rc)) in
      match update_records re (get_s (arg 6 v)) (get_b (arg 3 rc)) (real_subst (d_pairs (arg 14 rc))) sc (get_b (arg 7 v))
                           (get_s (arg 0 v)) rs st with
      | UOk written ev kn =>
          if existsb is_epanic ev then VL [e_fpres pr; vtag "panic" [e_written []; VL []; VL []]]
          else VL [e_fpres pr; vtag "ok" [e_written written; vlist e_event ev; vlist VN kn]]
      | UPanic written ev open_files => VL [e_fpres pr; vtag "panic" [e_written written; vlist e_event ev; e_strs open_files]]
      end
  | _ => VL [e_fpres pr]
  end.

Definition update_case (v : val) : val :=
  let a := update_case_with false v in
  let b := update_case_with true v in
  if val_eqb a b then a else VS (lit "oracle-miss").

(* ---- family "frames": [chunks; number of calls; stream ends after the chunks?] (bytes) *)
Definition e_fres (r : fres) : val :=
  match r with
  | Frame f => vtag "frame" [VS f]
  | Eof => vtag "eof" []
  | ErrRemaining => vtag "err-remaining" []
  | Pending => vtag "pending" []
  end.

Definition frames_case (v : val) : val :=
  vlist e_fres (nexts (get_b (arg 2 v)) (N.to_nat (get_n (arg 1 v))) [] (map get_s (get_l (arg 0 v)))).

(* ---- family "request": sql -> the request text the driver writes *)
Definition request_case (v : val) : val := VS (request_text (get_s v)).

(* ---- family "partition": [count or []; id or []; [[paths matched by glob 1]; ...]] *)
Definition partition_case (v : val) : val :=
  let cfg := partition_config (get_opt get_n (VL (match arg 0 v with VL [] => [] | x => [x] end)))
                              (get_opt get_n (VL (match arg 1 v with VL [] => [] | x => [x] end))) in
  match cfg with
  | PRejected => vtag "reject" []
  | _ => vtag "sel" [e_strs (select_all cfg (map d_strs (get_l (arg 2 v))))]
  end.

(* ---- family "cli": [[result codes in processing order: 0 ok 1 failed 2 cancelled 3 skipped 4 failed+refused]; fail_fast; ctrl_c] *)
Definition d_fresult (v : val) : fresult :=
  let n := get_n v in
  if n =? 0 then ROk else if n =? 1 then RErr false else if n =? 2 then RCancelled else if n =? 3 then RSkipped else RErr true.

Definition cli_case (v : val) : val :=
  let rs := map d_fresult (get_l (arg 0 v)) in
  let '(t, f, d) := junit_totals rs in
  VL [VN (exit_status (get_b (arg 1 v)) (get_b (arg 2 v)) rs);
      VL [VN (N.of_nat t); VN (N.of_nat f); VN (N.of_nat d)];
      vbool (cancelled (drive (get_b (arg 1 v)) rs))].

(* ---- family "par": [jobs; kept dbs; events] with events ["create",db] ["connect",db,s] ["sql",db,s]
   ["close",db,s] ["cancel"] ["drop",db] ["mgmt-close"] -> ["accepted"] | ["refused", index] *)
Definition d_pev (v : val) : pev :=
  if tag_is v "create" then PCreate (get_s (arg 1 v))
  else if tag_is v "connect" then PConnect (get_s (arg 1 v)) (get_n (arg 2 v))
  else if tag_is v "sql" then PSql (get_s (arg 1 v)) (get_n (arg 2 v))
  else if tag_is v "close" then PClose (get_s (arg 1 v)) (get_n (arg 2 v))
  else if tag_is v "cancel" then PCancel
  else if tag_is v "drop" then PDrop (get_s (arg 1 v))
  else PMgmtClose.

Definition par_case (v : val) : val :=
  let pa := mkParams (N.to_nat (get_n (arg 0 v))) (d_strs (arg 1 v)) in
  let tr := map d_pev (get_l (arg 2 v)) in
  match first_refused pa pst0 tr 0 with
  | None => vtag "accepted" []
  | Some i => vtag "refused" [VN (N.of_nat i)]
  end.

(* ---- family "driver": [jobs; keep; fail_fast; files; schedule]
   files = [[db; script; refused]] with script items ["connect",c] ["sql",c,ok] ["fail"];
   schedule items ["driver"] ["task",i,k] ["report",i] ["ctrlc"]
   -> [phase code; emitted events; reported [[db, code]]; exit status; accepted by the observer; mu of the initial state] *)
Definition d_act (v : val) : act :=
  if tag_is v "connect" then AConnect (get_n (arg 1 v))
  else if tag_is v "sql" then ASql (get_n (arg 1 v)) (get_b (arg 2 v))
  else AFail.
Definition d_fcfg (v : val) : fcfg :=
  mkF (get_s (arg 0 v)) (map d_act (get_l (arg 1 v))) (get_b (arg 2 v)).
Definition d_choice (v : val) : choice :=
  if tag_is v "driver" then CDriver
  else if tag_is v "task" then CTask (N.to_nat (get_n (arg 1 v))) (N.to_nat (get_n (arg 2 v)))
  else if tag_is v "report" then CReport (N.to_nat (get_n (arg 1 v)))
  else CCtrlC.
Definition e_pev (e : pev) : val :=
  match e with
  | PCreate d => vtag "create" [VS d]
  | PConnect d s => vtag "connect" [VS d; VN s]
  | PSql d s => vtag "sql" [VS d; VN s]
  | PClose d s => vtag "close" [VS d; VN s]
  | PCancel => vtag "cancel" []
  | PDrop d => vtag "drop" [VS d]
  | PMgmtClose => vtag "mgmt-close" []
  end.
Definition e_fresult (r : fresult) : val :=
  VN (match r with ROk => 0 | RErr false => 1 | RCancelled => 2 | RSkipped => 3 | RErr true => 4 end).
Definition e_phase (p : dphase) : val :=
  VN (match p with DCreate _ => 0 | DStream => 1 | DDrop _ => 2 | DClose => 3 | DEnd => 4 end).

Definition driver_case (v : val) : val :=
  let cf := mkCfg (N.to_nat (get_n (arg 0 v))) (get_b (arg 1 v)) (get_b (arg 2 v)) (map d_fcfg (get_l (arg 3 v))) in
  let '(st, tr) := drun cf (dst0 cf) (map d_choice (get_l (arg 4 v))) in
  VL [e_phase (d_phase st); VL (map e_pev tr);
      VL (map (fun p => VL [VS (fst p); e_fresult (snd p)]) (d_reported st));
      VN (exit_of st);
      vbool (accepts (mkParams (c_jobs cf) (kept_of cf st)) tr)].

(* ---- family "serial": [[file codes: 0 passes, 1 fails, 4 fails with "Connection refused"]; fail_fast;
   schedule items ["run", interrupted] | ["ctrlc"], or [] for the plain schedule (every file, no Ctrl-C)]
   -> [reported result codes in order; exit status; files not yet run] *)
Definition d_sfile (v : val) : sfile :=
  let n := get_n v in if n =? 0 then FPass else if n =? 4 then FFails true else FFails false.
Definition d_schoice (v : val) : schoice :=
  if tag_is v "run" then SRun (get_b (arg 1 v)) else SCtrlC.
Definition serial_case (v : val) : val :=
  let files := map d_sfile (get_l (arg 0 v)) in
  let sched := match get_l (arg 2 v) with [] => plain_schedule files | l => map d_schoice l end in
  let st := srun (get_b (arg 1 v)) (sst0 files) sched in
  VL [VL (map e_fresult (s_reported st)); VN (sexit st); VN (N.of_nat (length (s_todo st)))].

(* family dispatcher used by the extracted runner and by the vm_compute cross-check *)
Definition model_main (fam : str) (v : val) : val :=
  if str_eqb fam (lit "run") then run_case v
  else if str_eqb fam (lit "parse") then parse_case v
  else if str_eqb fam (lit "format") then format_case v
  else if str_eqb fam (lit "trim") then trim_case v
  else if str_eqb fam (lit "file") then file_case v
  else if str_eqb fam (lit "update") then update_case v
  else if str_eqb fam (lit "frames") then frames_case v
  else if str_eqb fam (lit "request") then request_case v
  else if str_eqb fam (lit "partition") then partition_case v
  else if str_eqb fam (lit "cli") then cli_case v
  else if str_eqb fam (lit "par") then par_case v
  else if str_eqb fam (lit "driver") then driver_case v
  else if str_eqb fam (lit "serial") then serial_case v
  else VS (lit "unknown-family").
