(* Entry.v — executable entry points of the model, one per correspondence family:
   decode a case, run the model, encode the observable. *)
From SLT Require Export Decode Runner Parser.
Open Scope N_scope.

Definition e_event (e : event) : val :=
  match e with
  | EConnect id => vtag "connect" [VN id]
  | EConnectFail k => vtag "connect-fail" [VN k]
  | ESql id s => vtag "sql" [VN id; VS s]
  | ECmd c => vtag "cmd" [VS (lit "bash"); VS (lit "-c"); VS c]
  | ESleep d => vtag "sleep" [VN (d / NANOS); VN (d mod NANOS)]
  | EShutdown id => vtag "shutdown" [VN id]
  end.

Definition d_ans (v : val) : ans := if tag_is v "echo" then AEcho else AOut (d_dbout v).

Definition e_final (f : final) : val :=
  match f with
  | FOk => vtag "ok" []
  | FErr k l => vtag "err" [VN (kind_code k); VN 0; e_loc l]
  | FBug => vtag "unreachable" []
  end.

Definition e_result (r : record) (p : routput * verdict) : val :=
  match snd p with
  | Pass => vtag "ok" [e_routput (fst p)]
  | Fail k => vtag "err" [VN (kind_code k); VN 0; e_loc (record_loc r)]
  | Unreachable => vtag "unreachable" []
  end.

(* placeholder until Subst.v is plugged in below *)
Definition no_subst (is_sql : bool) (vars : list (str * str)) (s : str) : str + str := inl s.

Section RunFamily.
  Variable substitute : bool -> list (str * str) -> str -> str + str.

  (* case = [mode; records; oracle; strict; labels; vars; threshold; engine;
             answers; default; make_fail; sys; sys_default; shutdown] *)
  Definition run_case_with (dflt : bool) (v : val) : val :=
    let mode := get_s (arg 0 v) in
    let rs := map d_record (get_l (arg 1 v)) in
    let re := tbl_lookup (get_l (arg 2 v)) dflt in
    let st := mkRState (mkConfig None None (get_n (arg 6 v)) (get_b (arg 3 v))) false
                       (d_strs (arg 4 v))
                       []
                       (map (fun p => (get_s (arg 0 p), get_s (arg 1 p))) (get_l (arg 5 v))) in
    let sc := mkScript (map d_ans (get_l (arg 8 v))) (d_ans (arg 9 v))
                       (map get_n (get_l (arg 10 v)))
                       (map d_sysout (get_l (arg 11 v))) (d_sysout (arg 12 v))
                       (get_s (arg 7 v)) in
    let too_many := existsb (fun r => match record_retry r with
                                      | Some rt => 1000 <? attempts rt | None => false end) rs in
    if too_many then VS (lit "retry-attempts-too-large-for-model") else
    if str_eqb mode (lit "each") then
      let '(ev, st', w', l) := run_each re substitute sc st world0 rs in
      let ev := if get_b (arg 13 v) then ev ++ shutdown_all st' else ev in
      VL [VL (map (fun p => e_result (fst p) (snd p)) (combine rs l)); vlist e_event ev]
    else
      let '(ev, st', w', f) := run_multi re substitute sc st world0 rs in
      let ev := if get_b (arg 13 v) then ev ++ shutdown_all st' else ev in
      VL [e_final f; vlist e_event ev].
End RunFamily.

Definition run_case (v : val) : val :=
  let a := run_case_with no_subst false v in
  let b := run_case_with no_subst true v in
  if val_eqb a b then a else VS (lit "oracle-miss").

(* ---- family "parse": case = [text; two-letter column type?; re_valid table [[pattern, bool]...]] *)
Fixpoint tbl1_lookup (tbl : list val) (dflt : bool) (s : str) : bool :=
  match tbl with
  | [] => dflt
  | e :: r => if str_eqb (get_s (arg 0 e)) s then get_b (arg 1 e) else tbl1_lookup r dflt s
  end.

Definition e_presult (r : presult) : val :=
  match r with
  | POk rs => vtag "ok" [vlist e_record rs]
  | PErr k n => vtag "err" [VN (pkind_code k); VN n]
  | PPanic => vtag "panic" []
  end.

Definition parse_case_with (dflt : bool) (v : val) : val :=
  let col := if get_b (arg 1 v) then two_col else default_col in
  e_presult (parse col (tbl1_lookup (get_l (arg 2 v)) dflt) (lit "t.slt") None (get_s (arg 0 v))).

Definition parse_case (v : val) : val :=
  let a := parse_case_with false v in
  let b := parse_case_with true v in
  if val_eqb a b then a else VS (lit "oracle-miss").

(* family dispatcher used by the extracted runner and by the vm_compute cross-check *)
Definition model_main (fam : str) (v : val) : val :=
  if str_eqb fam (lit "run") then run_case v
  else if str_eqb fam (lit "parse") then parse_case v
  else VS (lit "unknown-family").
