(* UpdateText7.v — the text layer of --override, part 7: the EXACT condition under which the
   trailing-newline trimmer breaks a written file.  UpdateText3.v used the sufficient premise
   "the last record other than blank lines does not have an empty SQL text"; here the premise is
   weakened to [dangling_end frs = false]: the last record other than blank lines is not a
   record whose text ENDS with its empty SQL line (statement ok / count / error without a
   `----` block, query error likewise, system without expected stdout).  A query with a result
   block, or any record with a `----` block, is fine even with an empty SQL text.  The
   counterexample UpdateText8.empty_sql_at_end_does_not_reparse shows the premise is needed. *)
From SLT Require Import Base Text Syntax Duration Parser Render TextProofs RenderProofs
     Unparse FsTrim FsProofs FormatSpec FormatProofs Runner Update UpdateSpec UpdateProofs
     Include IncludeSpec IncludeProofs
     UpdateFile1 UpdateFile3 UpdateFile UpdateText UpdateText2 UpdateText3 UpdateText5 UpdateText6.
Open Scope N_scope.

(* ------------------------------------------------------------------ 1. headers never carry a multi-line text *)
Definition eplain (e : experr) : bool := match e with EMulti _ => false | _ => true end.
Definition hplain (h : hdr) : bool :=
  match h with
  | HStatement (SError e) _ => eplain e
  | HQuery (QError e) _ => eplain e
  | _ => true
  end.

Lemma parse_inline_plain re toks e : parse_inline re toks = HOk e -> eplain e = true.
Proof.
  unfold parse_inline. destruct (join [32] toks) as [|c s].
  - intros H. inversion H. reflexivity.
  - destruct (re (c :: s)); intros H; inversion H. reflexivity.
Qed.

Lemma error_tail_plain re rest (mk : experr -> option retry -> hdr) h :
  (forall e r, hplain (mk e r) = eplain e) ->
  (if is_retry_shape rest then with_retry rest (mk EEmpty)
   else match parse_inline re rest with
        | HOk e => HOk (mk e None)
        | HErr k => HErr k
        | HPanic => HPanic
        end) = HOk h -> hplain h = true.
Proof.
  intros Hmk H. destruct (is_retry_shape rest).
  - apply with_retry_inv in H as (r & _ & ->). rewrite Hmk. reflexivity.
  - destruct (parse_inline re rest) as [e| |] eqn:Ei; try discriminate.
    inversion H; subst. rewrite Hmk. eapply parse_inline_plain. exact Ei.
Qed.

Lemma parse_statement_header_plain re args h :
  parse_statement_header re args = HOk h -> hplain h = true.
Proof.
  unfold parse_statement_header. destruct args as [|t rest]; [discriminate|].
  destruct (kw "ok" t).
  { intros H. apply with_retry_inv in H as (r & _ & ->). reflexivity. }
  destruct (kw "error" t).
  { apply (error_tail_plain re rest (fun e r => HStatement (SError e) r)). reflexivity. }
  destruct (kw "count" t); [|discriminate].
  destruct rest as [|c rest']; [discriminate|].
  destruct (parse_u64 c); [|discriminate].
  intros H. apply with_retry_inv in H as (r & _ & ->). reflexivity.
Qed.

Lemma parse_query_header_plain col re args h :
  parse_query_header col re args = HOk h -> hplain h = true.
Proof.
  unfold parse_query_header. destruct args as [|t rest].
  { intros H. inversion H. reflexivity. }
  destruct (kw "error" t).
  { apply (error_tail_plain re rest (fun e r => HQuery (QError e) r)). reflexivity. }
  destruct (parse_types col t); [|discriminate]. cbv zeta.
  intros H. apply with_retry_inv in H as (r & _ & ->). reflexivity.
Qed.

(* ------------------------------------------------------------------ 2. how the parser gets to [First] *)
Section FirstMode.
  Variable col : N -> option N.
  Variable re : str -> bool.
  Variable file : str.
  Variable upper : option loc.

  Notation step := (Parser.step col re file upper).
  Notation run_lines := (Parser.run_lines col re file upper).
  Notation top_line := (Parser.top_line col re file upper).
  Notation finish := (Parser.finish file upper).
  Notation complete := (RenderProofs.complete col re file upper).
  Notation erec := (RenderProofs.erec file upper).

  Lemma top_line_delim p n : top_line p n DELIM = SFail PInvalidLine n.
  Proof. reflexivity. Qed.

  Lemma top_line_first rs cs cn cm ln n l p' hl h :
    top_line (mkP rs cs cn cm ln Top) n l = SNext p' -> pmode p' = First hl h ->
    hplain h = true /\ l <> DELIM.
  Proof.
    intros H Hf. split; [|intros ->; rewrite top_line_delim in H; discriminate H].
    revert H. unfold Parser.top_line. destruct l as [|c0 l0].
    { intros H. inversion H; subst. discriminate Hf. }
    cbv zeta. destruct (split_ws (c0 :: l0)) as [|t args].
    { intros H. inversion H; subst. discriminate Hf. }
    repeat match goal with
           | |- (if ?b then _ else _) = _ -> _ => destruct b
           | |- match ?x with _ => _ end = _ -> _ => destruct x eqn:?
           end;
      try discriminate; intros H; inversion H; subst; cbn in Hf; try discriminate Hf;
      inversion Hf; subst;
      first [ eapply parse_statement_header_plain; eassumption
            | eapply parse_query_header_plain; eassumption
            | reflexivity ].
  Qed.

  Lemma step_first_inv p l p' hl h :
    step p l = SNext p' -> pmode p' = First hl h -> hplain h = true /\ l <> DELIM.
  Proof.
    intros Hs Hf. destruct p as [rs cs cn cm ln m].
    destruct m as [|hl0 h0|hl0 h0 sql|hl0 h0 sql acc|hl0 h0 sql acc pend].
    - destruct (N.eq_dec (hd 0 l) 35) as [E|E].
      + destruct l as [|c l']; [discriminate E|]. cbn [hd] in E. subst c.
        rewrite step_comment in Hs. inversion Hs; subst. discriminate Hf.
      + rewrite step_top in Hs by exact E. eapply top_line_first; eassumption.
    - rewrite step_first in Hs. inversion Hs; subst. discriminate Hf.
    - destruct l as [|c l'].
      + rewrite step_body_blank in Hs. inversion Hs; subst. discriminate Hf.
      + destruct (str_eqb_spec (c :: l') DELIM) as [E|E].
        * rewrite E, step_body_delim in Hs. unfold on_delimiter in Hs.
          repeat match type of Hs with
                 | (if ?b then _ else _) = _ => destruct b
                 | match ?x with _ => _ end = _ => destruct x
                 end; try discriminate Hs; inversion Hs; subst; discriminate Hf.
        * rewrite step_body_line in Hs by (try discriminate; exact E).
          inversion Hs; subst. discriminate Hf.
    - destruct l as [|c l'].
      + rewrite step_result_blank in Hs. inversion Hs; subst. discriminate Hf.
      + rewrite step_result_line in Hs by discriminate. inversion Hs; subst. discriminate Hf.
    - destruct l as [|c l'].
      + destruct pend.
        * rewrite step_multi_blank1 in Hs. inversion Hs; subst. discriminate Hf.
        * rewrite step_multi_blank0 in Hs. inversion Hs; subst. discriminate Hf.
      + rewrite step_multi_line in Hs by discriminate. inversion Hs; subst. discriminate Hf.
  Qed.

  Lemma run_lines_snoc L l p p1 :
    run_lines p (L ++ [l]) = SNext p1 ->
    exists p0, run_lines p L = SNext p0 /\ step p0 l = SNext p1.
  Proof.
    rewrite run_lines_app. destruct (run_lines p L) as [p0| |]; try discriminate.
    cbn [Parser.run_lines]. destruct (step p0 l) as [p2| |] eqn:Es; try discriminate.
    intros H. inversion H; subst. exists p0. split; [reflexivity | exact Es].
  Qed.

  (* the refined form of UpdateText3.parse_trimmed *)
  Theorem parse_trimmed_exact body j R :
    parse col re file upper (body ++ [10] ++ repeat 10 j) = POk R ->
    (exists R1 n, parse col re file upper (body ++ [10]) = POk R1 /\ R = R1 ++ repeat RNewline n) \/
    (exists ln R0 hl cs cn h n,
        parse col re file upper (body ++ [10]) = PErr PUnexpectedEOF ln /\
        R = R0 ++ erec hl cs cn h [] [] None None :: repeat RNewline n /\
        hplain h = true /\ last (lines (body ++ [10])) [] <> DELIM).
  Proof.
    unfold parse, parse_lines_list. rewrite lines_trailing.
    set (L := lines (body ++ [10])). intros Hp.
    rewrite run_lines_app in Hp.
    destruct (run_lines pstate0 L) as [p1| |] eqn:E1; try discriminate Hp.
    assert (HI : cmI p1) by (eapply run_lines_cmI; [|exact E1]; left; reflexivity).
    pose proof (blank_tail col re file upper j p1 R HI) as Hbt. unfold RenderProofs.complete in Hbt.
    specialize (Hbt Hp).
    destruct (pmode p1) as [|hl h|hl h sql|hl h sql acc|hl h sql acc pend] eqn:Em;
      try (left; exact Hbt).
    destruct Hbt as [Hf Hj].
    destruct j as [|j].
    - left. cbn [repeat Parser.run_lines] in Hp. rewrite Hf in Hp. discriminate Hp.
    - right. destruct (Hj ltac:(lia)) as [n Hn].
      assert (HL : L <> []).
      { intros E. rewrite E in E1. cbn [Parser.run_lines] in E1. inversion E1; subst p1.
        discriminate Em. }
      destruct (exists_last HL) as (L0 & l & EL). rewrite EL in E1.
      destruct (run_lines_snoc _ _ _ _ E1) as (p0 & _ & Hs).
      destruct (step_first_inv _ _ _ _ _ Hs Em) as [Hpl Hl].
      exists (hl + 1), (recs p1), hl, (pconds p1), (pconn p1), h, n.
      split; [exact Hf|]. split; [exact Hn|]. split; [exact Hpl|].
      rewrite EL, last_last. exact Hl.
  Qed.
End FirstMode.

(* ------------------------------------------------------------------ 3. the last record other than blank lines *)
Definition is_blank (r : record) : bool := match r with RNewline => true | _ => false end.

Fixpoint last_nb (rs : list record) : option record :=
  match rs with
  | [] => None
  | r :: rest =>
      match last_nb rest with
      | Some x => Some x
      | None => if is_blank r then None else Some r
      end
  end.

(* the text of the record ends with its (empty) SQL / command line *)
Definition dangling (r : record) : bool :=
  match r with
  | RStatement _ _ _ [] e _ => match e with SError (EMulti _) => false | _ => true end
  | RQuery _ _ _ [] (QError e) _ => match e with EMulti _ => false | _ => true end
  | RSystem _ _ [] None _ => true
  | _ => false
  end.

Definition dangling_end (rs : list record) : bool :=
  match last_nb rs with Some r => dangling r | None => false end.

Lemma last_nb_none : forall rs, last_nb rs = None -> meaning rs = [].
Proof.
  induction rs as [|r rs IH]; intros H; [reflexivity|]. cbn [last_nb] in H.
  destruct (last_nb rs); [discriminate H|]. destruct r; try discriminate H.
  cbn [meaning]. apply IH. reflexivity.
Qed.

Lemma last_nb_blank_tail : forall rs, last_nb rs = None -> rs = repeat RNewline (length rs).
Proof.
  induction rs as [|r rs IH]; intros H; [reflexivity|]. cbn [last_nb] in H.
  destruct (last_nb rs); [discriminate H|]. destruct r; try discriminate H.
  cbn [length repeat]. rewrite <- IH by reflexivity. reflexivity.
Qed.

Lemma last_nb_some : forall rs r, last_nb rs = Some r ->
  exists A n, rs = A ++ r :: repeat RNewline n /\ is_blank r = false.
Proof.
  induction rs as [|x rs IH]; intros r H; [discriminate H|]. cbn [last_nb] in H.
  destruct (last_nb rs) as [y|] eqn:E.
  - inversion H; subst y. destruct (IH r eq_refl) as (A & n & -> & Hb).
    exists (x :: A), n. split; [reflexivity | exact Hb].
  - destruct (is_blank x) eqn:Eb; [discriminate H|]. inversion H; subst x.
    exists [], (length rs). split; [|exact Eb]. cbn [app]. f_equal. apply last_nb_blank_tail. exact E.
Qed.

Lemma meaning_last_comment : forall A ls n,
  exists M ls', meaning (A ++ RComment ls :: repeat RNewline n) = M ++ [RComment ls'].
Proof.
  induction A as [|a A IH]; intros ls n.
  - exists [], (map trim_end ls). cbn [app meaning]. rewrite meaning_blanks. reflexivity.
  - destruct (IH ls n) as (M & ls' & HM).
    destruct a; cbn [app meaning]; rewrite ?HM;
      try (eexists (_ :: M), ls'; reflexivity); try (exists M, ls'; reflexivity).
    destruct M as [|m0 M'].
    + eexists [], _. reflexivity.
    + destruct m0; cbn [app];
        first [ eexists (_ :: _ :: M'), ls'; reflexivity | eexists (_ :: M'), ls'; reflexivity ].
Qed.

(* ------------------------------------------------------------------ 4. the text of a file ending in a result block *)
Lemma recs_text_app a b : recs_text (a ++ b) = recs_text a ++ recs_text b.
Proof. unfold recs_text. apply flat_map_app. Qed.

Lemma recs_text_blanks n : recs_text (repeat RNewline n) = repeat 10 n.
Proof. induction n as [|n IH]; [reflexivity|]. cbn [repeat]. unfold recs_text in *. cbn [flat_map]. rewrite IH. reflexivity. Qed.

Lemma trailing_unique body body' k k' :
  last body 0 <> 10 -> last body' 0 <> 10 ->
  body ++ repeat 10 k = body' ++ repeat 10 k' -> body = body' /\ k = k'.
Proof.
  intros Hl Hl' E.
  assert (Hk : k = k').
  { rewrite <- (ctn_rev_body_nl body k Hl), <- (ctn_rev_body_nl body' k' Hl'), E. reflexivity. }
  subst k'. split; [|reflexivity]. eapply app_inv_tail. exact E.
Qed.

Lemma lines_delim_last Z : last (lines ((Z ++ [10] ++ DELIM) ++ [10])) [] = DELIM.
Proof.
  rewrite <- !app_assoc. unfold lines. cbn [app]. rewrite lines_aux_snoc_nl.
  change (lines_aux [] (DELIM ++ [10])) with [DELIM]. apply last_last.
Qed.

Lemma last_delim Z : last (Z ++ [10] ++ DELIM) 0 <> 10.
Proof. change DELIM with ([45; 45; 45] ++ [45]). rewrite !app_assoc. rewrite last_last. discriminate. Qed.

Lemma result_block_text A l cs cn t s lb rt n :
  exists Z, recs_text (A ++ RQuery l cs cn [] (QResults t s lb []) rt :: repeat RNewline n)
            = (Z ++ [10] ++ DELIM) ++ repeat 10 (S (S n)).
Proof.
  exists (recs_text A ++ (lit "query " ++ (t ++ (match s with Some m => sp ++ sort_text m | None => [] end)
                                         ++ (match lb with Some x => sp ++ x | None => [] end))
                         ++ retry_text rt) ++ [10]).
  rewrite recs_text_app. change (?r :: repeat RNewline n) with ([r] ++ repeat RNewline n).
  rewrite recs_text_app, recs_text_blanks.
  unfold recs_text at 2. cbn [flat_map]. unfold rec_text. cbn [display map concat].
  unfold nl1, DELIM. cbn [repeat]. rewrite <- !app_assoc. cbn [app]. reflexivity.
Qed.

(* ------------------------------------------------------------------ 5. the file theorem with the exact premise *)
Lemma erase_not_comment h file upper hl cs cn ls :
  RComment ls <> erase (RenderProofs.erec file upper hl cs cn h [] [] None None).
Proof. destruct h; discriminate. Qed.

Section Exact.
  Variable col : N -> option N.
  Variable rv : str -> bool.

  Theorem written_file_reparses_exact frs bytes :
    parsed_ok col rv (map reread frs) ->
    trim_tail (utf8 (recs_text frs)) = TOk bytes ->
    dangling_end frs = false ->
    forall file upper, exists text R n,
      bytes = utf8 text /\
      parse col rv file upper text = POk R /\
      reparse file upper 0 [] (map reread frs) = R ++ repeat RNewline n /\
      meaning R = map reread (meaning frs).
  Proof.
    intros Hpo Ht Hend file upper.
    destruct (reparse_parse col rv file upper _ Hpo) as (f & Hw & Hparse).
    pose proof (write_records_text _ _ Hw) as Hf. rewrite recs_text_reread in Hf. subst f.
    assert (Hmean : meaning (reparse file upper 0 [] (map reread frs)) = map reread (meaning frs)).
    { rewrite meaning_reparse; [apply meaning_map_reread | | reflexivity].
      eapply rec_ok_comment_ne. apply Hpo. }
    destruct (trim_tail_text _ _ (recs_text_end frs) Ht) as [[Htext ->]|(body & j & Hl & Htext & ->)].
    - exists [], (reparse file upper 0 [] (map reread frs)), O.
      rewrite Htext in Hparse. split; [reflexivity|]. split; [exact Hparse|].
      split; [rewrite app_nil_r; reflexivity | exact Hmean].
    - rewrite Htext in Hparse.
      destruct (parse_trimmed_exact col rv file upper body j _ Hparse)
        as [(R1 & n & Hp1 & HR)|(ln & R0 & hl & cs & cn & h & n & _ & HR & Hpl & Hlast)].
      + exists (body ++ [10]), R1, n. split; [reflexivity|]. split; [exact Hp1|]. split; [exact HR|].
        rewrite <- Hmean, HR. symmetry. apply meaning_app_blanks.
      + exfalso.
        set (re_ := RenderProofs.erec file upper hl cs cn h [] [] None None) in *.
        assert (Hrc : is_rcomment re_ = false) by (subst re_; destruct h; reflexivity).
        assert (Hrn : re_ <> RNewline) by (subst re_; destruct h; discriminate).
        destruct (meaning_last R0 re_ n Hrc Hrn) as [M HM].
        rewrite <- HR, Hmean in HM.
        unfold dangling_end in Hend.
        destruct (last_nb frs) as [rl|] eqn:El.
        2:{ rewrite (last_nb_none _ El) in HM. cbn [map] in HM.
            symmetry in HM. apply app_eq_nil in HM as [_ HM]. discriminate HM. }
        destruct (last_nb_some _ _ El) as (A & m & Efrs & Hb).
        destruct (is_rcomment rl) eqn:Ec.
        { destruct rl; try discriminate Ec.
          destruct (meaning_last_comment A ls m) as (M' & ls' & HM').
          rewrite Efrs, HM', map_app in HM. cbn [map reread] in HM.
          apply app_inj_tail in HM as [_ HM]. subst re_. eapply erase_not_comment. exact HM. }
        assert (Hrln : rl <> RNewline) by (intros ->; discriminate Hb).
        destruct (meaning_last A rl m Ec Hrln) as [M' HM'].
        pose proof HM as HM0.
        rewrite Efrs, HM', map_app in HM0. cbn [map] in HM0.
        apply app_inj_tail in HM0 as [_ HM0].
        subst re_. destruct h as [e rt|e rt|rt]; cbn [RenderProofs.erec erase] in HM0.
        * destruct rl; try discriminate HM0. cbn [erase reread] in HM0. inversion HM0; subst.
          cbn [dangling] in Hend. cbn [hplain] in Hpl.
          destruct e as [| |[| |]]; try discriminate Hend. discriminate Hpl.
        * destruct rl; try discriminate HM0. cbn [erase reread] in HM0. inversion HM0; subst.
          destruct e as [t s lb x|x].
          -- (* a result block: the trimmed text ends with the `----` line *)
             destruct (result_block_text A l cs cn t s lb rt m) as [Z HZ].
             rewrite Htext in HZ.
             change (body ++ [10] ++ repeat 10 j) with (body ++ repeat 10 (S j)) in HZ.
             apply trailing_unique in HZ as [Hbody _]; [| exact Hl | ].
             2:{ apply last_delim. }
             apply Hlast. rewrite Hbody. apply lines_delim_last.
          -- cbn [dangling] in Hend. cbn [hplain] in Hpl.
             destruct x; try discriminate Hend. discriminate Hpl.
        * destruct rl; try discriminate HM0. cbn [erase reread] in HM0. inversion HM0; subst.
          destruct stdout; [discriminate|]. discriminate Hend.
  Qed.
End Exact.

Print Assumptions written_file_reparses_exact.

(* the single-file statement (PART 3) with the exact premise *)
Theorem update_text_reparses_exact :
  forall col rv rm sep strict substitute sc,
    col_stable col -> escape_valid rv ->
    forall file upper main rs st w written ev kn,
      parsed_ok col rv rs ->
      update_loop rm sep strict substitute sc false rs [mkItem main []] false st w [] [] []
        = UOk written ev kn ->
      Forall2 (out_repr col sep strict) rs (updated_outputs rm sep strict substitute sc rs st w) ->
      let rs' := updated_records rm sep strict substitute sc rs st w in
      dangling_end rs' = false ->
      exists text R n,
        written = [(main, utf8 text)] /\
        parse col rv file upper text = POk R /\
        reparse file upper 0 [] (map reread rs') = R ++ repeat RNewline n /\
        meaning R = map reread (meaning rs').
Proof.
  intros col rv rm sep strict substitute sc Hcol Hesc file upper main rs st w written ev kn Hp HU Hout rs' Hend.
  destruct (update_text_reparses_untrimmed col rv rm sep strict substitute sc Hcol Hesc
              file upper main rs st w written ev kn Hp HU Hout)
    as (bytes & Hw & Ht & _ & _ & _). fold rs' in Ht.
  assert (Hpo : parsed_ok col rv (map reread rs')).
  { apply update_loop_upd in HU. destruct HU as (rs1 & ev1 & kn1 & outs & U & _ & _).
    cbn [length] in U.
    apply updated_records_parsed_ok; [exact Hcol | exact Hesc | exact Hp | exact Hout | rewrite U; discriminate]. }
  destruct (written_file_reparses_exact col rv rs' bytes Hpo Ht Hend file upper)
    as (text & R & n & -> & H1 & H2 & H3).
  exists text, R, n. repeat split; assumption.
Qed.

Print Assumptions update_text_reparses_exact.

(* what one closed file holds, with the exact premise *)
Definition file_reparses_exact (col : N -> option N) (rv : str -> bool)
           (frs : list record) (bytes : list N) : Prop :=
  dangling_end frs = false ->
  forall file upper, exists text R n,
    bytes = utf8 text /\
    parse col rv file upper text = POk R /\
    reparse file upper 0 [] (map reread frs) = R ++ repeat RNewline n /\
    meaning R = map reread (meaning frs).

(* include trees, exact premise per file *)
Theorem update_text_reparses_includes_exact :
  forall col rv rm sep strict substitute sc,
    col_stable col -> escape_valid rv ->
    forall main rs st w written ev kn files_in,
      update_loop rm sep strict substitute sc false rs [mkItem main []] false st w [] [] []
        = UOk written ev kn ->
      split_files rs [(main, [])] [] = Some files_in ->
      Forall (fun p => parsed_ok col rv (snd p)) files_in ->
      Forall2 (out_repr col sep strict) rs (updated_outputs rm sep strict substitute sc rs st w) ->
      exists files_out,
        split_files (updated_records rm sep strict substitute sc rs st w) [(main, [])] [] = Some files_out /\
        Forall2 (fun pin pout => fst pout = fst pin /\ length (snd pout) = length (snd pin)) files_in files_out /\
        Forall2 (fun pout d => fst d = fst pout /\ file_reparses_exact col rv (snd pout) (snd d)) files_out written.
Proof.
  intros col rv rm sep strict substitute sc Hcol Hesc main rs st w written ev kn files_in HU Hsin Hpin Hout.
  destruct (update_files_parsed_ok col rv rm sep strict substitute sc Hcol Hesc
              main rs st w written ev kn files_in HU Hsin Hpin Hout)
    as (files & Hsp & Hnm & Hpo & Hcl).
  exists files. split; [exact Hsp|]. split; [exact Hnm|].
  clear - Hpo Hcl. induction Hcl as [|p d l l' [Hn Ht] _ IH]; [constructor|].
  inversion Hpo as [|p0 l0 Hp Hrest]; subst. constructor; [|apply IH; exact Hrest].
  split; [exact Hn|]. intros Hend. apply written_file_reparses_exact; assumption.
Qed.
Print Assumptions update_text_reparses_includes_exact.

(* from the main file on: parse_file, update, every file written parses back *)
Theorem parse_file_update_text_reparses_exact :
  forall col rv rm sep strict substitute sc fs glob fuel main rs st w written ev kn,
    col_stable col -> escape_valid rv ->
    (forall f s, fs f = Some (FFile s) -> no_trailing_cr s) ->
    parse_file col rv fs glob fuel main = FOkR rs ->
    update_loop rm sep strict substitute sc false rs [mkItem main []] false st w [] [] []
      = UOk written ev kn ->
    Forall2 (out_repr col sep strict) rs (updated_outputs rm sep strict substitute sc rs st w) ->
    exists files_in files_out,
      split_files rs [(main, [])] [] = Some files_in /\
      split_files (updated_records rm sep strict substitute sc rs st w) [(main, [])] [] = Some files_out /\
      Forall2 (fun pin pout => fst pout = fst pin /\ length (snd pout) = length (snd pin)) files_in files_out /\
      Forall2 (fun pout d => fst d = fst pout /\ file_reparses_exact col rv (snd pout) (snd d)) files_out written.
Proof.
  intros col rv rm sep strict substitute sc fs glob fuel main rs st w written ev kn
         Hcol Hesc Hfs Hpf HU Hout.
  unfold parse_file in Hpf. apply expand_sound in Hpf.
  destruct (expands_files_parsed_ok col rv fs glob Hcol Hfs main 0 rs Hpf) as (files_in & Hsin & Hok).
  destruct (update_text_reparses_includes_exact col rv rm sep strict substitute sc Hcol Hesc
              main rs st w written ev kn files_in HU Hsin Hok Hout) as (files_out & H1 & H2 & H3).
  exists files_in, files_out. repeat split; assumption.
Qed.
Print Assumptions parse_file_update_text_reparses_exact.
