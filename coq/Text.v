(* Text.v — Rust std text primitives used by the parser, judge and updater,
   modelled on code-point lists.  Definitions only; lemmas are in TextProofs.v. *)
From SLT Require Export Base.
Open Scope N_scope.

(* char::is_whitespace — Unicode White_Space *)
Definition is_ws (c : N) : bool :=
  ((9 <=? c) && (c <=? 13)) || (c =? 32) || (c =? 133) || (c =? 160) || (c =? 5760)
  || ((8192 <=? c) && (c <=? 8202)) || (c =? 8232) || (c =? 8233) || (c =? 8239)
  || (c =? 8287) || (c =? 12288).

(* u8::is_ascii_whitespace — note: no 0x0B *)
Definition is_ascii_ws (c : N) : bool :=
  (c =? 9) || (c =? 10) || (c =? 12) || (c =? 13) || (c =? 32).

Definition LF : N := 10.
Definition CR : N := 13.

(* str::lines *)
Definition strip_cr_rev (cur : str) : str :=
  match cur with
  | c :: cur' => if c =? 13 then frev cur' else frev cur
  | [] => []
  end.

Fixpoint lines_aux (cur s : str) : list str :=
  match s with
  | [] => match cur with [] => [] | _ => [frev cur] end
  | c :: r => if c =? 10 then strip_cr_rev cur :: lines_aux [] r
              else lines_aux (c :: cur) r
  end.
Definition lines (s : str) : list str := lines_aux [] s.

(* str::split_whitespace / split_ascii_whitespace, generic in the blank predicate *)
Fixpoint split_aux (p : N -> bool) (cur s : str) : list str :=
  match s with
  | [] => match cur with [] => [] | _ => [frev cur] end
  | c :: s' => if p c
               then match cur with
                    | [] => split_aux p [] s'
                    | _ => frev cur :: split_aux p [] s'
                    end
               else split_aux p (c :: cur) s'
  end.
Definition split_ws (s : str) : list str := split_aux is_ws [] s.
Definition split_ascii_ws (s : str) : list str := split_aux is_ascii_ws [] s.

Fixpoint drop_while (p : N -> bool) (s : str) : str :=
  match s with
  | [] => []
  | c :: r => if p c then drop_while p r else s
  end.
Definition trim_start (s : str) : str := drop_while is_ws s.
Definition trim_end (s : str) : str := frev (drop_while is_ws (frev s)).
Definition trim (s : str) : str := trim_end (trim_start s).

Fixpoint join (sep : str) (l : list str) : str :=
  match l with
  | [] => []
  | x :: r => match r with [] => x | _ => x ++ sep ++ join sep r end
  end.

Fixpoint starts_with (p s : str) : bool :=
  match p, s with
  | [], _ => true
  | x :: p', y :: s' => (x =? y) && starts_with p' s'
  | _ :: _, [] => false
  end.

Definition ends_with (p s : str) : bool := starts_with (frev p) (frev s).

(* decimal rendering of a number (Display for integers) *)
Fixpoint dec_aux (fuel : nat) (n : N) (acc : str) : str :=
  match fuel with
  | O => acc
  | S f => let d := 48 + n mod 10 in
           let q := n / 10 in
           if q =? 0 then d :: acc else dec_aux f q (d :: acc)
  end.
Definition dec (n : N) : str := dec_aux (S (N.size_nat n)) n [].

(* "...".parse::<u64>() : optional '+', at least one ASCII digit, < 2^64 *)
Definition is_digit (c : N) : bool := (48 <=? c) && (c <=? 57).
Fixpoint digits_val (acc : N) (s : str) : option N :=
  match s with
  | [] => Some acc
  | c :: r => if is_digit c then digits_val (acc * 10 + (c - 48)) r else None
  end.
Definition U64MAX : N := 18446744073709551615.
Definition parse_u64 (s : str) : option N :=
  let body := match s with c :: r => if c =? 43 then r else s | [] => [] end in
  match body with
  | [] => None
  | _ => match digits_val 0 body with
         | Some v => if v <=? U64MAX then Some v else None
         | None => None
         end
  end.

(* lexicographic order on code points (= byte order of the UTF-8 encodings) *)
Fixpoint str_leb (a b : str) : bool :=
  match a, b with
  | [], _ => true
  | _ :: _, [] => false
  | x :: a', y :: b' => if x <? y then true else if x =? y then str_leb a' b' else false
  end.

(* UTF-8 encoding (bytes as N) *)
Definition utf8_cp (c : N) : list N :=
  if c <? 128 then [c]
  else if c <? 2048 then [192 + c / 64; 128 + c mod 64]
  else if c <? 65536 then [224 + c / 4096; 128 + (c / 64) mod 64; 128 + c mod 64]
  else [240 + c / 262144; 128 + (c / 4096) mod 64; 128 + (c / 64) mod 64; 128 + c mod 64].
Definition utf8 (s : str) : list N := flat_map utf8_cp s.

(* is [needle] an infix of [hay]? (str::contains) *)
Fixpoint contains (needle hay : str) : bool :=
  starts_with needle hay ||
  match hay with [] => false | _ :: r => contains needle r end.

(* str::replace(from, to) for non-empty [from]: leftmost, non-overlapping *)
Fixpoint replace_aux (fuel : nat) (from to s : str) : str :=
  match fuel with
  | O => s
  | S f =>
    match s with
    | [] => []
    | c :: r => if starts_with from s
                then to ++ replace_aux f from to (skipn (length from) s)
                else c :: replace_aux f from to r
    end
  end.
Definition replace (from to s : str) : str :=
  match from with [] => s | _ => replace_aux (S (length s)) from to s end.

(* str::trim_end_matches(c) for a single code point [c]: every trailing [c] is removed,
   nothing else (in particular no blank is skipped).  Linear: two [frev]. *)
Definition trim_end_matches_cp (c : N) (s : str) : str :=
  frev (drop_while (fun x => x =? c) (frev s)).

(* str::ends_with(c) for a single code point [c] *)
Definition ends_with_cp (c : N) (s : str) : bool :=
  match frev s with x :: _ => x =? c | [] => false end.
