(* RunnerProofs.v — guards (C11), connection table (C12) and the script driver (C02). *)
From SLT Require Import Runner RetryProofs.
Open Scope N_scope.

(* ------------------------------------------------------------------ guards (C11) *)
Definition admits (L : list str) (c : cond) : Prop :=
  match c with OnlyIf l => In l L | SkipIf l => ~ In l L end.

(* the label set a record is judged against: runner labels, plus the engine name for
   statements/queries when it is non-empty *)
Definition label_set (labels : list str) (engine_name : str) : list str :=
  match engine_name with [] => labels | _ => labels ++ [engine_name] end.

Lemma mem_str_In x l : mem_str x l = true <-> In x l.
Proof.
  induction l as [|y l IH]; cbn; [split; [discriminate|tauto]|].
  rewrite orb_true_iff, IH, str_eqb_eq. split; intros [H|H]; auto.
Qed.

Lemma cond_skips_iff L c : cond_skips L c = false <-> admits L c.
Proof.
  destruct c as [l|l]; cbn.
  - rewrite negb_false_iff. apply mem_str_In.
  - rewrite <- mem_str_In. destruct (mem_str l L); split; congruence.
Qed.

Theorem guard_spec labels engine_name conds :
  should_skip labels engine_name conds = false <-> Forall (admits (label_set labels engine_name)) conds.
Proof.
  unfold should_skip. fold (label_set labels engine_name).
  induction conds as [|c cs IH]; cbn; [split; auto|].
  rewrite orb_false_iff, IH, cond_skips_iff. split.
  - intros [A B]; constructor; auto.
  - intros H; inversion H; auto.
Qed.

(* skipped as soon as one guard says so *)
Theorem guard_any labels engine_name conds :
  should_skip labels engine_name conds = true <->
  exists c, In c conds /\ ~ admits (label_set labels engine_name) c.
Proof.
  unfold should_skip. fold (label_set labels engine_name). rewrite existsb_exists. split.
  - intros (c & Hin & Hs). exists c. split; auto. rewrite <- cond_skips_iff. congruence.
  - intros (c & Hin & Hn). exists c. split; auto. rewrite <- cond_skips_iff in Hn.
    destruct (cond_skips _ c); congruence.
Qed.

Definition is_sql (e : event) : bool := match e with ESql _ _ => true | _ => false end.
(* a command handed to bash, waited for (ECmd) or spawned in the background (EBackground);
   EBackground was added to this predicate together with the event, so that [quiet] keeps
   meaning "no SQL request and no command of any kind" *)
Definition is_cmd (e : event) : bool := match e with ECmd _ | EBackground _ => true | _ => false end.
Definition is_connect (e : event) : bool := match e with EConnect _ => true | _ => false end.
Definition quiet (ev : list event) : Prop := forall e, In e ev -> is_sql e = false /\ is_cmd e = false.

Lemma quiet_nil : quiet [].
Proof. intros e []. Qed.
Lemma quiet_connect id : quiet [EConnect id].
Proof. intros e [<-|[]]. split; reflexivity. Qed.

Lemma NoDup_app_single {A} (l : list A) (x : A) : NoDup l /\ ~ In x l -> NoDup (l ++ [x]).
Proof.
  intros [ND NI]. induction l as [|y l IH]; cbn; [constructor; [tauto|constructor]|].
  inversion ND; subst. constructor.
  - rewrite in_app_iff. cbn. intros [H|[H|[]]]; [tauto|]. subst. apply NI. now left.
  - apply IH; auto. intros H. apply NI. now right.
Qed.

Section Model.
  Variable re : str -> str -> bool.
  Variable substitute : bool -> list (str * str) -> str -> subres.
  Variable sc : script.

  Notation apply_record := (apply_record substitute sc).
  Notation get_conn := (get_conn sc).

  (* ---------------------------------------------------------- connection table (C12) *)
  Lemma get_conn_spec st w c :
    match find_conn c (conns st) with
    | Some id => get_conn st w c = ([], st, w, Some id)
    | None =>
        if mem_N (makes w) (make_fail sc)
        then exists w', get_conn st w c = ([EConnectFail (makes w)], st, w', None) /\
                        next_conn w' = next_conn w /\ calls w' = calls w /\ makes w' = makes w + 1
        else exists st' w', get_conn st w c = ([EConnect (next_conn w)], st', w', Some (next_conn w)) /\
                        conns st' = conns st ++ [(c, next_conn w)] /\
                        next_conn w' = next_conn w + 1 /\ calls w' = calls w /\ makes w' = makes w + 1 /\
                        cfg st' = cfg st /\ labels st' = labels st /\ subst_on st' = subst_on st /\ vars st' = vars st
    end.
  Proof.
    unfold Runner.get_conn. destruct (find_conn c (conns st)); [reflexivity|].
    destruct (mem_N (makes w) (make_fail sc)); eexists; [|eexists]; repeat split.
  Qed.

  Lemma conn_eqb_eq a b : conn_eqb a b = true <-> a = b.
  Proof.
    destruct a, b; cbn; try (split; congruence).
    rewrite str_eqb_eq. split; congruence.
  Qed.

  Lemma find_conn_app c l c' id :
    find_conn c (l ++ [(c', id)]) =
      match find_conn c l with Some x => Some x | None => if conn_eqb c c' then Some id else None end.
  Proof.
    induction l as [|[c0 i0] l IH]; cbn; [reflexivity|].
    destruct (conn_eqb c c0); auto.
  Qed.

  (* the association list refines a finite map name -> session:
     get returns the existing session or creates exactly one, and touches no other name *)
  Theorem get_conn_refines_map st w c ev st' w' id :
    get_conn st w c = (ev, st', w', Some id) ->
    find_conn c (conns st') = Some id /\
    (forall c', c' <> c -> find_conn c' (conns st') = find_conn c' (conns st)) /\
    (find_conn c (conns st) = Some id -> ev = [] /\ st' = st /\ w' = w) /\
    (find_conn c (conns st) = None -> ev = [EConnect id] /\ id = next_conn w /\ next_conn w' = id + 1).
  Proof.
    intros G. pose proof (get_conn_spec st w c) as S.
    destruct (find_conn c (conns st)) as [i|] eqn:F.
    - rewrite G in S. inversion S; subst. repeat split; auto; congruence.
    - destruct (mem_N (makes w) (make_fail sc)).
      + destruct S as (w1 & S & _). rewrite G in S. discriminate.
      + destruct S as (st1 & w1 & S & C & NX & _). rewrite G in S. inversion S; subst.
        repeat split; try congruence.
        * rewrite C, find_conn_app, F. destruct (conn_eqb c c) eqn:E; auto.
          assert (c = c) by reflexivity. apply conn_eqb_eq in H. congruence.
        * intros c' Hne. rewrite C, find_conn_app. destruct (find_conn c' (conns st)); auto.
          destruct (conn_eqb c' c) eqn:E; auto. apply conn_eqb_eq in E. congruence.
  Qed.

  (* invariant: names are bound once, sessions are distinct and older than next_conn *)
  Definition conn_inv (st : rstate) (w : world) : Prop :=
    NoDup (map snd (conns st)) /\
    (forall c id, In (c, id) (conns st) -> id < next_conn w) /\
    (forall c id, In (c, id) (conns st) -> find_conn c (conns st) = Some id).

  Lemma find_conn_In c l id : find_conn c l = Some id -> exists c', conn_eqb c c' = true /\ In (c', id) l.
  Proof.
    induction l as [|[c0 i0] l IH]; cbn; [discriminate|].
    destruct (conn_eqb c c0) eqn:E.
    - intros H; inversion H; subst. eauto.
    - intros H. destruct (IH H) as (c' & A & B). eauto.
  Qed.

  Lemma get_conn_inv st w c ev st' w' o :
    get_conn st w c = (ev, st', w', o) -> conn_inv st w -> conn_inv st' w'.
  Proof.
    intros G (ND & LT & FD). pose proof (get_conn_spec st w c) as S.
    destruct (find_conn c (conns st)) as [i|] eqn:F.
    - rewrite G in S. inversion S; subst. repeat split; auto.
    - destruct (mem_N (makes w) (make_fail sc)).
      + destruct S as (w1 & S & NX & _). rewrite G in S. inversion S; subst.
        repeat split; auto. intros c0 id H. rewrite NX. eauto.
      + destruct S as (st1 & w1 & S & C & NX & _). rewrite G in S. inversion S; subst.
        repeat split.
        * rewrite C, map_app. cbn. apply NoDup_app_single. split; auto.
          intros Hin. apply in_map_iff in Hin as ([c0 i0] & E & Hin). cbn in E. subst.
          apply LT in Hin. lia.
        * intros c0 id. rewrite C, in_app_iff. cbn. rewrite NX. intros [H|[H|[]]].
          -- apply LT in H. lia.
          -- inversion H; subst. lia.
        * intros c0 id. rewrite C, in_app_iff. cbn. intros [H|[H|[]]].
          -- rewrite find_conn_app. now rewrite (FD _ _ H).
          -- inversion H; subst. rewrite find_conn_app, F.
             destruct (conn_eqb c0 c0) eqn:E; auto.
             assert (c0 = c0) by reflexivity. apply conn_eqb_eq in H0. congruence.
  Qed.

  (* ------------------------------------------------- what apply_record does to a guarded record *)
  Theorem skipped_system st w l cs cmd ex r :
    should_skip (labels st) [] cs = true ->
    apply_record st w (RSystem l cs cmd ex r) = ([], st, w, ONothing).
  Proof. intros H. cbn. now rewrite H. Qed.

  (* STATEMENT CHANGED when background commands were modelled: the premise
     [is_background cmd' = false] is new.  Without it the statement is false: a command
     ending in '&' emits [EBackground _], not [ECmd _], and consumes no shell answer.
     The background sibling is [executed_system_bg] below (and RunnerBackground.v). *)
  Theorem executed_system st w l cs cmd ex r cmd' :
    should_skip (labels st) [] cs = false -> may_substitute substitute st false cmd = SubOk cmd' ->
    is_background cmd' = false ->
    exists a w', apply_record st w (RSystem l cs cmd ex r) = ([ECmd cmd'], st, w', apply_system ex a) /\
                 sys_calls w' = sys_calls w + 1 /\ calls w' = calls w.
  Proof.
    intros H M B. cbn. rewrite H, M, B. unfold sys_request. eexists _, _. repeat split.
  Qed.

  Theorem executed_system_bg st w l cs cmd ex r cmd' :
    should_skip (labels st) [] cs = false -> may_substitute substitute st false cmd = SubOk cmd' ->
    is_background cmd' = true ->
    apply_record st w (RSystem l cs cmd ex r) = ([EBackground (background_cmd cmd')], st, w, OSystem None false).
  Proof.
    intros H M B. cbn. now rewrite H, M, B.
  Qed.

  Theorem skipped_statement st w l cs c sql e r sql' ev st1 w1 id :
    may_substitute substitute st true sql = SubOk sql' ->
    get_conn st w c = (ev, st1, w1, Some id) ->
    should_skip (labels st1) (engine sc) cs = true ->
    apply_record st w (RStatement l cs c sql e r) = (ev, st1, w1, ONothing) /\
    quiet ev /\ calls w1 = calls w /\ sys_calls w1 = sys_calls w.
  Proof.
    intros M G H. cbn. rewrite M, G, H. split; [reflexivity|].
    pose proof (get_conn_spec st w c) as S. rewrite G in S.
    destruct (find_conn c (conns st)).
    - inversion S; subst. split; [apply quiet_nil|split; reflexivity].
    - destruct (mem_N (makes w) (make_fail sc)).
      + destruct S as (w' & S & _). discriminate.
      + destruct S as (st' & w' & S & _ & _ & CL & _). inversion S; subst.
        split; [apply quiet_connect|split; [exact CL|]].
        unfold Runner.get_conn in G. destruct (find_conn c (conns st)); [inversion G; subst; reflexivity|].
        destruct (mem_N (makes w) (make_fail sc)); inversion G; subst; reflexivity.
  Qed.

  Theorem skipped_query st w l cs c sql e r sql' ev st1 w1 id :
    may_substitute substitute st true sql = SubOk sql' ->
    get_conn st w c = (ev, st1, w1, Some id) ->
    should_skip (labels st1) (engine sc) cs = true ->
    apply_record st w (RQuery l cs c sql e r) = (ev, st1, w1, ONothing) /\
    quiet ev /\ calls w1 = calls w /\ sys_calls w1 = sys_calls w.
  Proof.
    intros M G H. cbn. rewrite M, G, H. split; [reflexivity|].
    pose proof (get_conn_spec st w c) as S. rewrite G in S.
    destruct (find_conn c (conns st)).
    - inversion S; subst. split; [apply quiet_nil|split; reflexivity].
    - destruct (mem_N (makes w) (make_fail sc)).
      + destruct S as (w' & S & _). discriminate.
      + destruct S as (st' & w' & S & _ & _ & CL & _). inversion S; subst.
        split; [apply quiet_connect|split; [exact CL|]].
        unfold Runner.get_conn in G. destruct (find_conn c (conns st)); [inversion G; subst; reflexivity|].
        destruct (mem_N (makes w) (make_fail sc)); inversion G; subst; reflexivity.
  Qed.

  (* executed: exactly one request, on the session bound to the record's connection name,
     carrying the (substituted) SQL text *)
  Theorem executed_statement st w l cs c sql e r sql' ev st1 w1 id :
    may_substitute substitute st true sql = SubOk sql' ->
    get_conn st w c = (ev, st1, w1, Some id) ->
    should_skip (labels st1) (engine sc) cs = false ->
    exists d w2, apply_record st w (RStatement l cs c sql e r) = (ev ++ [ESql id sql'], st1, w2, apply_stmt d) /\
                 find_conn c (conns st1) = Some id /\ calls w2 = calls w1 + 1 /\ quiet ev.
  Proof.
    intros M G H. cbn. rewrite M, G, H. unfold db_request. eexists _, _. split; [reflexivity|].
    destruct (get_conn_refines_map st w c ev st1 w1 id G) as (F & _ & A & B).
    split; [exact F|]. split; [reflexivity|].
    destruct (find_conn c (conns st)) as [i|] eqn:E.
    - pose proof (get_conn_spec st w c) as S. rewrite E, G in S. inversion S; subst. apply quiet_nil.
    - destruct (B eq_refl) as (-> & _). apply quiet_connect.
  Qed.

  Theorem executed_query st w l cs c sql e r sql' ev st1 w1 id :
    may_substitute substitute st true sql = SubOk sql' ->
    get_conn st w c = (ev, st1, w1, Some id) ->
    should_skip (labels st1) (engine sc) cs = false ->
    exists d w2, apply_record st w (RQuery l cs c sql e r) = (ev ++ [ESql id sql'], st1, w2, apply_query (cfg st1) e d) /\
                 find_conn c (conns st1) = Some id /\ calls w2 = calls w1 + 1 /\ quiet ev.
  Proof.
    intros M G H. cbn. rewrite M, G, H. unfold db_request. eexists _, _. split; [reflexivity|].
    destruct (get_conn_refines_map st w c ev st1 w1 id G) as (F & _ & A & B).
    split; [exact F|]. split; [reflexivity|].
    destruct (find_conn c (conns st)) as [i|] eqn:E.
    - pose proof (get_conn_spec st w c) as S. rewrite E, G in S. inversion S; subst. apply quiet_nil.
    - destruct (B eq_refl) as (-> & _). apply quiet_connect.
  Qed.

  (* a skipped record yields no output and cannot fail *)
  Theorem nothing_passes g r : judge re g r ONothing = Pass.
  Proof. reflexivity. Qed.

  (* with substitution off the text reaches the database unchanged *)
  Theorem subst_off_identity st b s : subst_on st = false -> may_substitute substitute st b s = SubOk s.
  Proof. intros H. unfold may_substitute. now rewrite H. Qed.

  (* ------------------------------------------------- facts preserved along any run *)
  Section Preserve.
    Variable R : rstate * world -> list event -> rstate * world -> Prop.
    Hypothesis R_refl : forall s, R s [] s.
    Hypothesis R_trans : forall s1 e1 s2 e2 s3, R s1 e1 s2 -> R s2 e2 s3 -> R s1 (e1 ++ e2) s3.
    Hypothesis R_sleep : forall s d, R s [ESleep d] s.
    Hypothesis R_apply : forall st w r ev st' w' o,
      apply_record st w r = (ev, st', w', o) -> R (st, w) ev (st', w').

    Lemma R_attempt r sw ev sw' o v :
      attempt_record re substitute sc r sw = (ev, sw', o, v) -> R sw ev sw'.
    Proof.
      unfold attempt_record, run_no_retry. destruct sw as [st w]. cbn [fst snd].
      destruct (apply_record st w r) as [[[ev0 st1] w1] o1] eqn:A. intros H; inversion H; subst.
      eapply R_apply; eauto.
    Qed.

    Lemma R_retry r n d : forall sw lastv ev sw' o v,
      retry_gen _ _ (attempt_record re substitute sc r) ONothing n d sw lastv = (ev, sw', o, v) -> R sw ev sw'.
    Proof.
      induction n as [|n IH]; intros sw lastv ev sw' o v H.
      - cbn in H. inversion H; subst. apply R_refl.
      - rewrite retry_gen_S in H. cbv zeta in H.
        destruct (attempt_record re substitute sc r sw) as [[[ev1 sw1] o1] v1] eqn:A.
        pose proof (R_attempt _ _ _ _ _ _ A) as RA.
        destruct (passes _ _ (ev1, sw1, o1, v1)).
        + inversion H; subst. exact RA.
        + rewrite r_state_mk, r_verdict_mk, r_events_mk in H.
          destruct (retry_gen _ _ (attempt_record re substitute sc r) ONothing n d sw1 v1) as [[[ev2 sw2] o2] v2] eqn:G.
          rewrite r_events_mk, r_state_mk, r_output_mk, r_verdict_mk in H.
          injection H as <- <- <- <-.
          eapply R_trans; [exact RA|]. change (ESleep d :: ev2) with ([ESleep d] ++ ev2).
          eapply R_trans; [apply R_sleep|]. eapply IH; eauto.
    Qed.

    Lemma R_run_async st w r ev st' w' o v :
      run_async re substitute sc st w r = (ev, st', w', o, v) -> R (st, w) ev (st', w').
    Proof.
      unfold run_async. destruct (record_retry r) as [rt|].
      - unfold retry_loop.
        destruct (retry_gen _ _ (attempt_record re substitute sc r) ONothing (N.to_nat (attempts rt)) (backoff rt) (st, w) Unreachable)
          as [[[ev0 sw0] o0] v0] eqn:G.
        intros H; inversion H; subst. destruct sw0. eapply R_retry; eauto.
      - unfold run_no_retry. destruct (apply_record st w r) as [[[ev0 st1] w1] o1] eqn:A.
        intros H; inversion H; subst. eapply R_apply; eauto.
    Qed.

    Lemma R_run_multi rs : forall st w ev st' w' e,
      run_multi_e re substitute sc st w rs = (ev, st', w', e) -> R (st, w) ev (st', w').
    Proof.
      induction rs as [|r rs IH]; intros st w ev st' w' e H.
      - cbn in H. inversion H; subst. apply R_refl.
      - assert (Hr : (exists l, r = RHalt l) \/ forall l, r <> RHalt l) by (destruct r; eauto; right; discriminate).
        destruct Hr as [[l ->]|Hr].
        + cbn in H. inversion H; subst. apply R_refl.
        + assert (E : run_multi_e re substitute sc st w (r :: rs) =
                      let '(ev, st1, w1, _, v) := run_async re substitute sc st w r in
                      match v with
                      | Pass => let '(ev2, st2, w2, f) := run_multi_e re substitute sc st1 w1 rs in (ev ++ ev2, st2, w2, f)
                      | Fail k => (ev, st1, w1, Stopped (FErr k (record_loc r)))
                      | Unreachable => (ev, st1, w1, Stopped FBug)
                      end).
          { destruct r; try reflexivity. exfalso; eapply Hr; reflexivity. }
          rewrite E in H. clear E.
          destruct (run_async re substitute sc st w r) as [[[[ev1 st1] w1] o1] v1] eqn:A.
          pose proof (R_run_async _ _ _ _ _ _ _ _ A) as RA.
          destruct v1.
          * destruct (run_multi_e re substitute sc st1 w1 rs) as [[[ev2 st2] w2] f] eqn:M.
            inversion H; subst. eapply R_trans; [exact RA|]. eapply IH; eauto.
          * inversion H; subst. exact RA.
          * inversion H; subst. exact RA.
    Qed.
  End Preserve.

  (* ------------------------------------------------- sessions along a whole run (C12) *)
  Definition count_connects (ev : list event) : nat := length (filter is_connect ev).

  Definition Rconn (s : rstate * world) (ev : list event) (s' : rstate * world) : Prop :=
    conn_inv (fst s) (snd s) ->
    conn_inv (fst s') (snd s') /\
    (count_connects ev + length (conns (fst s)) = length (conns (fst s')))%nat /\
    (forall c id, find_conn c (conns (fst s)) = Some id -> find_conn c (conns (fst s')) = Some id).

  Lemma conn_inv_world st w w' : next_conn w' = next_conn w -> conn_inv st w -> conn_inv st w'.
  Proof. intros E (A & B & C). repeat split; auto. intros c id H. rewrite E. eauto. Qed.

  Lemma Rconn_get st w c ev st' w' o :
    get_conn st w c = (ev, st', w', o) -> Rconn (st, w) ev (st', w').
  Proof.
    intros G I. cbn [fst snd] in *. split; [eapply get_conn_inv; eauto|].
    pose proof (get_conn_spec st w c) as S. destruct (find_conn c (conns st)) as [i|] eqn:F.
    - rewrite G in S. inversion S; subst. split; auto.
    - destruct (mem_N (makes w) (make_fail sc)).
      + destruct S as (w1 & S & _). rewrite G in S. inversion S; subst. split; auto.
      + destruct S as (st1 & w1 & S & C & _). rewrite G in S. inversion S; subst. split.
        * rewrite C, app_length. cbn. lia.
        * intros c0 id H. rewrite C, find_conn_app, H. reflexivity.
  Qed.

  Lemma Rconn_same st w w' ev :
    next_conn w' = next_conn w -> filter is_connect ev = [] -> Rconn (st, w) ev (st, w').
  Proof.
    intros E F I. cbn [fst snd] in *. split; [eapply conn_inv_world; eauto|]. split; auto.
    unfold count_connects. now rewrite F.
  Qed.

  Lemma Rconn_ext s ev s' st2 w2 ev2 :
    Rconn s ev s' -> conns st2 = conns (fst s') -> next_conn w2 = next_conn (snd s') ->
    filter is_connect ev2 = filter is_connect ev -> Rconn s ev2 (st2, w2).
  Proof.
    intros R C NX F I. destruct (R I) as ((A1 & A2 & A3) & B & D). cbn [fst snd].
    split; [|split].
    - unfold conn_inv. rewrite C, NX. repeat split; auto.
    - unfold count_connects in *. now rewrite F, C.
    - now rewrite C.
  Qed.

  Lemma filter_connect_snoc ev e : is_connect e = false -> filter is_connect (ev ++ [e]) = filter is_connect ev.
  Proof. intros H. rewrite filter_app. cbn. rewrite H. apply app_nil_r. Qed.

  Lemma Rconn_apply st w r ev st' w' o :
    apply_record st w r = (ev, st', w', o) -> Rconn (st, w) ev (st', w').
  Proof.
    destruct r; cbn; intros H;
      try (injection H as <- <- <- <-; apply Rconn_same; reflexivity).
    - destruct (may_substitute substitute st true sql); [|injection H as <- <- <- <-; apply Rconn_same; reflexivity|injection H as <- <- <- <-; apply Rconn_same; reflexivity].
      destruct (get_conn st w c) as [[[ev1 st1] w1] [id|]] eqn:G.
      + pose proof (Rconn_get _ _ _ _ _ _ _ G) as RG.
        destruct (should_skip (labels st1) (engine sc) conds).
        * injection H as <- <- <- <-. exact RG.
        * unfold db_request in H. injection H as <- <- <- <-.
          eapply Rconn_ext; [exact RG|reflexivity|reflexivity|apply filter_connect_snoc; reflexivity].
      + injection H as <- <- <- <-. eapply Rconn_get; eauto.
    - destruct (may_substitute substitute st true sql); [|injection H as <- <- <- <-; apply Rconn_same; reflexivity|injection H as <- <- <- <-; apply Rconn_same; reflexivity].
      destruct (get_conn st w c) as [[[ev1 st1] w1] [id|]] eqn:G.
      + pose proof (Rconn_get _ _ _ _ _ _ _ G) as RG.
        destruct (should_skip (labels st1) (engine sc) conds).
        * injection H as <- <- <- <-. exact RG.
        * unfold db_request in H. injection H as <- <- <- <-.
          eapply Rconn_ext; [exact RG|reflexivity|reflexivity|apply filter_connect_snoc; reflexivity].
      + injection H as <- <- <- <-. eapply Rconn_get; eauto.
    - destruct (should_skip (labels st) [] conds); [injection H as <- <- <- <-; apply Rconn_same; reflexivity|].
      destruct (may_substitute substitute st false cmd) as [cmd'| |]; [|injection H as <- <- <- <-; apply Rconn_same; reflexivity|injection H as <- <- <- <-; apply Rconn_same; reflexivity].
      destruct (is_background cmd'); [injection H as <- <- <- <-; apply Rconn_same; reflexivity|].
      unfold sys_request in H. injection H as <- <- <- <-. apply Rconn_same; reflexivity.
    - destruct c; injection H as <- <- <- <-; apply (Rconn_ext (st, w) [] (st, w)); try reflexivity;
        apply Rconn_same; reflexivity.
    - injection H as <- <- <- <-. apply (Rconn_ext (st, w) [] (st, w)); try reflexivity. apply Rconn_same; reflexivity.
  Qed.

  Lemma Rconn_trans s1 e1 s2 e2 s3 : Rconn s1 e1 s2 -> Rconn s2 e2 s3 -> Rconn s1 (e1 ++ e2) s3.
  Proof.
    intros A B I. destruct (A I) as (I2 & C2 & F2). destruct (B I2) as (I3 & C3 & F3).
    split; [exact I3|]. split; [|auto].
    unfold count_connects in *. rewrite filter_app, app_length. lia.
  Qed.

  (* over any script: the invariant holds, one session was created per newly bound name,
     and a name once bound keeps its session (it is reused afterwards) *)
  Theorem sessions_once rs st w ev st' w' e :
    run_multi_e re substitute sc st w rs = (ev, st', w', e) ->
    conn_inv st w ->
    conn_inv st' w' /\
    (count_connects ev + length (conns st) = length (conns st'))%nat /\
    (forall c id, find_conn c (conns st) = Some id -> find_conn c (conns st') = Some id).
  Proof.
    intros H. apply (R_run_multi Rconn) in H.
    - exact H.
    - intros s I. split; auto.
    - apply Rconn_trans.
    - intros s d. destruct s. apply Rconn_same; reflexivity.
    - apply Rconn_apply.
  Qed.

  (* distinct names never share a session *)
  Theorem sessions_isolated st w c1 c2 id :
    conn_inv st w -> find_conn c1 (conns st) = Some id -> find_conn c2 (conns st) = Some id -> c1 = c2.
  Proof.
    intros (ND & _ & FD) F1 F2.
    apply find_conn_In in F1 as (a1 & E1 & I1). apply find_conn_In in F2 as (a2 & E2 & I2).
    apply conn_eqb_eq in E1, E2. subst a1 a2.
    (* two entries with the same id in a list whose ids are NoDup are the same entry *)
    revert ND I1 I2. generalize (conns st). induction l as [|[c0 i0] l IH]; cbn; [tauto|].
    intros ND [H1|H1] [H2|H2]; inversion ND; subst.
    - congruence.
    - inversion H1; subst. exfalso. apply H3. apply in_map_iff. exists (c2, id). auto.
    - inversion H2; subst. exfalso. apply H3. apply in_map_iff. exists (c1, id). auto.
    - auto.
  Qed.

  (* shutting down closes every opened session, once *)
  Theorem shutdown_closes_all st :
    shutdown_all st = map (fun p => EShutdown (snd p)) (conns st) /\
    length (shutdown_all st) = length (conns st) /\
    (forall c id, find_conn c (conns st) = Some id -> In (EShutdown id) (shutdown_all st)).
  Proof.
    unfold shutdown_all. split; [reflexivity|]. split; [apply map_length|].
    intros c id F. apply find_conn_In in F as (c' & _ & I). apply in_map_iff. exists (c', id). auto.
  Qed.

  (* ------------------------------------------------- the script driver (C02) *)
  Notation run_multi_e := (run_multi_e re substitute sc).
  Notation run_async := (run_async re substitute sc).

  Definition not_halt (r : record) : Prop := forall l, r <> RHalt l.

  Lemma run_multi_halt st w l rs : run_multi_e st w (RHalt l :: rs) = ([], st, w, Halted).
  Proof. reflexivity. Qed.

  Lemma run_multi_cons st w r rs :
    not_halt r ->
    run_multi_e st w (r :: rs) =
      let '(ev, st1, w1, _, v) := run_async st w r in
      match v with
      | Pass => let '(ev2, st2, w2, f) := run_multi_e st1 w1 rs in (ev ++ ev2, st2, w2, f)
      | Fail k => (ev, st1, w1, Stopped (FErr k (record_loc r)))
      | Unreachable => (ev, st1, w1, Stopped FBug)
      end.
  Proof. intros H. destruct r; try reflexivity. exfalso; eapply H; reflexivity. Qed.

  Lemma halt_dec r : (exists l, r = RHalt l) \/ not_halt r.
  Proof. destruct r; eauto; right; intros l0 H; discriminate. Qed.

  (* compositionality: a script is run by running its first part, then - unless that part
     halted or failed - the second part from the state the first part left *)
  Theorem run_multi_app rs1 : forall rs2 st w,
    run_multi_e st w (rs1 ++ rs2) =
      let '(ev1, st1, w1, e1) := run_multi_e st w rs1 in
      match e1 with
      | Finished => let '(ev2, st2, w2, e2) := run_multi_e st1 w1 rs2 in (ev1 ++ ev2, st2, w2, e2)
      | _ => (ev1, st1, w1, e1)
      end.
  Proof.
    induction rs1 as [|r rs1 IH]; intros rs2 st w.
    - cbn [app]. cbn. destruct (run_multi_e st w rs2) as [[[ev2 st2] w2] e2]. reflexivity.
    - destruct (halt_dec r) as [[l ->]|Hr]; [reflexivity|].
      cbn [app]. rewrite !(run_multi_cons _ _ _ _ Hr).
      destruct (run_async st w r) as [[[[ev st1] w1] o] v]. destruct v; try reflexivity.
      rewrite IH. destruct (run_multi_e st1 w1 rs1) as [[[ev1 st2] w2] e1].
      destruct e1; try reflexivity.
      destruct (run_multi_e st2 w2 rs2) as [[[ev2 st3] w3] e2]. now rewrite app_assoc.
  Qed.

  (* running a list of records every one of which passes *)
  Inductive all_pass : rstate -> world -> list record -> list event -> rstate -> world -> Prop :=
  | ap_nil st w : all_pass st w [] [] st w
  | ap_cons st w r rs ev st1 w1 o ev2 st2 w2 :
      not_halt r -> run_async st w r = (ev, st1, w1, o, Pass) ->
      all_pass st1 w1 rs ev2 st2 w2 -> all_pass st w (r :: rs) (ev ++ ev2) st2 w2.

  (* the trace of a run is the concatenation of the events of exactly the records before the
     first halt / up to and including the first failing record; nothing after is touched *)
  Theorem run_multi_trace rs : forall st w ev st' w' e,
    run_multi_e st w rs = (ev, st', w', e) ->
    exists pre post, rs = pre ++ post /\
      match e with
      | Finished => post = [] /\ all_pass st w pre ev st' w'
      | Halted => (exists l rest, post = RHalt l :: rest) /\ all_pass st w pre ev st' w'
      | Stopped f =>
          exists pre' r ev1 st1 w1 ev2 o v,
            pre = pre' ++ [r] /\ not_halt r /\ all_pass st w pre' ev1 st1 w1 /\
            run_async st1 w1 r = (ev2, st', w', o, v) /\ ev = ev1 ++ ev2 /\ v <> Pass /\
            f = match v with Fail k => FErr k (record_loc r) | _ => FBug end
      end.
  Proof.
    induction rs as [|r rs IH]; intros st w ev st' w' e H.
    - cbn in H. inversion H; subst. exists [], []. repeat split. constructor.
    - destruct (halt_dec r) as [[l ->]|Hr].
      + cbn in H. inversion H; subst. exists [], (RHalt l :: rs). repeat split; eauto. constructor.
      + rewrite (run_multi_cons _ _ _ _ Hr) in H.
        destruct (run_async st w r) as [[[[ev1 st1] w1] o1] v1] eqn:A.
        destruct v1.
        * destruct (run_multi_e st1 w1 rs) as [[[ev2 st2] w2] e2] eqn:M.
          injection H as <- <- <- <-.
          destruct (IH _ _ _ _ _ _ M) as (pre & post & -> & Hm).
          exists (r :: pre), post. split; [reflexivity|].
          destruct e2.
          -- destruct Hm as (-> & AP). split; [reflexivity|]. econstructor; eauto.
          -- destruct Hm as (HP & AP). split; [exact HP|]. econstructor; eauto.
          -- destruct Hm as (pre' & r' & e1' & s1' & w1' & e2' & o' & v' & -> & NH & AP & RA & -> & NV & ->).
             exists (r :: pre'), r', (ev1 ++ e1'), s1', w1', e2', o', v'.
             repeat split; auto; [econstructor; eauto|now rewrite app_assoc].
        * injection H as <- <- <- <-. exists [r], rs. split; [reflexivity|].
          exists [], r, [], st, w, ev1, o1, (Fail k). repeat split; auto; [constructor|discriminate].
        * injection H as <- <- <- <-. exists [r], rs. split; [reflexivity|].
          exists [], r, [], st, w, ev1, o1, Unreachable. repeat split; auto; [constructor|discriminate].
  Qed.

  (* the result is Ok exactly when the run ended at the end of the list or at a halt *)
  Theorem run_multi_result rs st w ev st' w' e :
    run_multi_e st w rs = (ev, st', w', e) ->
    (final_of e = FOk <-> (e = Finished \/ e = Halted)).
  Proof.
    intros H. destruct e as [| |f]; cbn; split; auto; try (intros [X|X]; discriminate).
    intros ->. apply run_multi_trace in H.
    destruct H as (pre & post & _ & pre' & r & e1 & s1 & w1 & e2 & o & v & _ & _ & _ & _ & _ & NV & F).
    destruct v; congruence.
  Qed.

  (* control / hash-threshold records emit no event, produce no output and change only their own field *)
  Theorem control_scope st w r :
    (forall c, r = RControl c ->
       apply_record st w r =
         ([], match c with
              | CtlSortMode m => set_cfg st (mkConfig (Some m) (rmode (cfg st)) (threshold (cfg st)) (strict_cols (cfg st)))
              | CtlResultMode m => set_cfg st (mkConfig (file_sort (cfg st)) (Some m) (threshold (cfg st)) (strict_cols (cfg st)))
              | CtlSubstitution b => mkRState (cfg st) b (labels st) (conns st) (vars st)
              end, w, ONothing)) /\
    (forall l n, r = RHashThreshold l n ->
       apply_record st w r =
         ([], set_cfg st (mkConfig (file_sort (cfg st)) (rmode (cfg st)) n (strict_cols (cfg st))), w, ONothing)).
  Proof.
    split.
    - intros c ->. destruct c; reflexivity.
    - intros l n ->. reflexivity.
  Qed.
End Model.
