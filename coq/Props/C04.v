(* Property C04 — malformed input is rejected with a located error; the parser never
   panics.  Statements only.  [valid_header] (HeaderSpec.v) is the declarative grammar of the
   documented directives; [status_of] classifies what a top-level line does. *)
From SLT Require Import Parser HeaderSpec ParserSafety.
Open Scope N_scope.

(* parsing any list of lines terminates (structural recursion: a fold over the lines) with
   records or a located error, never a panic - unless a duration word makes humantime itself
   panic (known finding D13, witness below) *)
Theorem C04_no_panic :
  forall col re file upper ls, dur_safe ls -> parse_lines_list col re file upper ls <> PPanic.
Proof. exact parse_no_panic. Qed.
Print Assumptions C04_no_panic.

Theorem C04_panic_refuted :
  exists s, parse default_col (fun _ => true) (lit "t.slt") None s = PPanic.
Proof. exact parse_panic_witness. Qed.
Print Assumptions C04_panic_refuted.

Theorem C04_line_bound :
  forall col re file upper ls k n,
    parse_lines_list col re file upper ls = PErr k n -> 1 <= n <= N.of_nat (length ls) + 1.
Proof. exact parse_error_line_bound. Qed.
Print Assumptions C04_line_bound.

(* what a top-level line does depends on the line alone *)
Theorem C04_line_status_uniform :
  forall col re file upper p n line,
    match status_of col re line with
    | LAccept => exists p', top_line col re file upper p n line = SNext p'
    | LReject k => top_line col re file upper p n line = SFail k n
    | LPanic => top_line col re file upper p n line = SPanic
    end.
Proof. exact top_line_uniform. Qed.
Print Assumptions C04_line_status_uniform.

(* a rejected line at a record boundary is reported at that very line, whatever precedes and follows *)
Theorem C04_reject_at_boundary :
  forall col re file upper pre b post p k,
    run_lines col re file upper pstate0 pre = SNext p -> pmode p = Top ->
    hd_error b <> Some 35 ->
    status_of col re b = LReject k ->
    parse_lines_list col re file upper (pre ++ b :: post) = PErr k (N.of_nat (length pre) + 1).
Proof. exact reject_at_boundary. Qed.
Print Assumptions C04_reject_at_boundary.

(* accepted exactly when its words form a documented directive with well-formed arguments *)
Theorem C04_strict :
  forall col re line,
    split_ws line <> [] -> dur_safe_words (split_ws line) ->
    (status_of col re line = LAccept <-> valid_header col re (split_ws line)).
Proof. exact accept_iff_valid_header. Qed.
Print Assumptions C04_strict.

(* a result block under statement ok|count, and an inline plus a multi-line error text, are
   reported at the header line *)
Theorem C04_statement_results_rejected :
  forall col re file upper p hl e r sql,
    (e = SOk \/ exists n, e = SCount n) ->
    step col re file upper (mkP (recs p) (pconds p) (pconn p) (pcomments p) (lineno p) (Body hl (HStatement e r) sql)) DELIM
      = SFail PStatementHasResults hl.
Proof. exact statement_results_rejected. Qed.
Print Assumptions C04_statement_results_rejected.

Theorem C04_duplicated_error_rejected :
  forall col re file upper p hl x r sql,
    x <> EEmpty ->
    step col re file upper (mkP (recs p) (pconds p) (pconn p) (pcomments p) (lineno p) (Body hl (HStatement (SError x) r) sql)) DELIM
      = SFail PDuplicatedErrorMessage hl /\
    step col re file upper (mkP (recs p) (pconds p) (pconn p) (pcomments p) (lineno p) (Body hl (HQuery (QError x) r) sql)) DELIM
      = SFail PDuplicatedErrorMessage hl.
Proof. exact duplicated_error_rejected. Qed.
Print Assumptions C04_duplicated_error_rejected.
