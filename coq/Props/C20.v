(* Property C20 — the external-engine driver pairs each request with its reply under any
   chunking.  Statements only.  Framing.v: the delimiter scanner [frame_end] (where serde_json's
   stream deserializer stops on an object reply), the FramedRead pull loop [next]/[nexts]. *)
From SLT Require Import Framing FramingProofs JsonProofs.

(* for all reply sequences and ALL ways of cutting their concatenation (followed by anything) into
   chunks - no bound on number or size, cuts inside multi-byte characters and escapes included -
   the k-th pull returns exactly the bytes of the k-th reply *)
Theorem C20_chunking :
  forall eof fs, Forall is_frame fs -> forall chunks tail, concat chunks = concat fs ++ tail ->
    firstn (length fs) (nexts eof (length fs) [] chunks) = map Frame fs.
Proof. exact chunking. Qed.
Print Assumptions C20_chunking.

(* if the stream ends inside the k-th reply (any truncation point, any chunking) the k-th call gets
   an error - never a frame, never waiting; a clean end gives end-of-stream (UnexpectedEof) *)
Theorem C20_truncated :
  forall fs p, Forall is_frame fs -> frame_end p = None ->
    forall chunks, concat chunks = concat fs ++ p ->
    nth (length fs) (nexts true (S (length fs)) [] chunks) Pending = match p with [] => Eof | _ => ErrRemaining end.
Proof. exact truncated_stream. Qed.
Print Assumptions C20_truncated.

(* once a complete reply is buffered, later bytes never move its end *)
Theorem C20_stable :
  forall p n, frame_end p = Some n -> (n <= length p)%nat /\ forall q, frame_end (p ++ q) = Some n.
Proof. exact frame_end_stable. Qed.
Print Assumptions C20_stable.

(* no strict prefix of a reply is taken for a complete one *)
Theorem C20_prefix_incomplete :
  forall f p q, is_frame f -> f = p ++ q -> q <> [] -> frame_end p = None.
Proof. exact frame_prefix_none. Qed.
Print Assumptions C20_prefix_incomplete.

(* request direction: the SQL text is recovered from the escaped request body by the reference
   unescaper, for every text; hence distinct SQL texts give distinct request bytes *)
Theorem C20_request_roundtrip :
  forall sql f, (length sql < f)%nat -> json_unescape f (json_escape sql) = Some sql.
Proof. exact unescape_escape. Qed.
Print Assumptions C20_request_roundtrip.

Theorem C20_request_injective :
  forall a b, request_text a = request_text b -> a = b.
Proof. exact request_injective. Qed.
Print Assumptions C20_request_injective.
