(* Property C14 — `include` splices matching files in path order, recursively, with
   provenance.  Statements only.  [expands]/[splice] (IncludeSpec.v) is the declarative
   splice: the matching files in the order glob returns them (ascending path order: the
   glob crate's documented order, an oracle here), each bracketed by begin/end markers,
   directly after the include record; [expand] (Include.v) is the model of parse_file_inner. *)
From SLT Require Import Parser Include IncludeSpec IncludeProofs.
Open Scope N_scope.

Theorem C14_expand_sound :
  forall col re fs glob fuel l out, expand col re fs glob fuel l = FOkR out -> expands col re fs glob l out.
Proof. exact expand_sound. Qed.
Print Assumptions C14_expand_sound.

Theorem C14_expand_complete :
  forall col re fs glob l out, expands col re fs glob l out ->
    exists fuel0, forall fuel, (fuel0 <= fuel)%nat -> expand col re fs glob fuel l = FOkR out.
Proof. exact expand_complete. Qed.
Print Assumptions C14_expand_complete.

(* fuel is only fuel: no definite answer depends on it (acyclic trees; a cyclic include never
   gets a definite answer - the Rust code recurses without bound on it) *)
Theorem C14_fuel_irrelevant :
  forall col re fs glob fuel l r, expand col re fs glob fuel l = r -> r <> FOutOfFuel ->
    forall fuel', (fuel <= fuel')%nat -> expand col re fs glob fuel' l = r.
Proof. exact expand_fuel_mono. Qed.
Print Assumptions C14_fuel_irrelevant.

Theorem C14_markers_nested :
  forall col re fs glob fuel l out, expand col re fs glob fuel l = FOkR out -> nested [] out = true.
Proof. exact expand_nested. Qed.
Print Assumptions C14_markers_nested.

(* every located record reports the innermost open file and the chain of include sites *)
Theorem C14_provenance :
  forall col re fs glob fuel f n up out,
    expand col re fs glob fuel (Loc f n up) = FOkR out -> provenance (f, up) None [] out = true.
Proof. exact expand_provenance. Qed.
Print Assumptions C14_provenance.

Theorem C14_missing_file_is_located_error :
  forall col re fs glob fuel file n up,
    fs file = None -> expand col re fs glob (S fuel) (Loc file n up) = FErrR K_FILE_NOT_FOUND (Loc file n up).
Proof. exact missing_file_error. Qed.
Print Assumptions C14_missing_file_is_located_error.

Theorem C14_empty_match_is_located_error :
  forall col re fs glob fuel file n up script pre il fn rest outpre,
    fs file = Some (FFile script) ->
    parse col re file up script = POk (pre ++ RInclude il fn :: rest) ->
    splice col re fs glob file pre outpre ->
    (forall r, In r pre -> is_include r = false) ->
    glob (join_path (dirname file) fn) = GOk [] ->
    expand col re fs glob (S fuel) (Loc file n up) = FErrR K_EMPTY_INCLUDE il.
Proof. exact empty_include_error. Qed.
Print Assumptions C14_empty_match_is_located_error.

(* the parser itself never emits markers and stamps every record with the file and chain it was given *)
Theorem C14_parser_locations :
  forall col re file upper s rs, parse col re file upper s = POk rs ->
    Forall (fun r => match r with RBeginInclude _ | REndInclude _ => False | _ => True end) rs /\
    Forall (fun r => match record_loc_opt r with Some (Loc f _ u) => f = file /\ u = upper | None => True end) rs.
Proof. exact parse_locs. Qed.
Print Assumptions C14_parser_locations.
