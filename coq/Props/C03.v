(* Property C03 — what is written in a test file is what gets parsed, with true line numbers.
   Statements only.  Render.v holds the specification: abstract scripts [item] over the full
   grammar with every optional clause, concrete layouts (blank strings between/around header
   words, block endings, per-line LF/CRLF, final newline or not), the renderer [render] and
   the elaboration [elab] (records with every field and the 1-based number of their first line);
   [wf_script] says what the format can express. *)
From SLT Require Import Parser Render TextProofs RenderProofs.

(* every well-formed script, however laid out, parses to exactly the records written *)
Theorem C03_roundtrip :
  forall col re file upper (a : list item) eols final,
    wf_script col re a -> (final = false -> last (render_lines a) [] <> []) ->
    parse col re file upper (render a eols final) = POk (elab file upper a).
Proof. exact roundtrip. Qed.
Print Assumptions C03_roundtrip.

(* the same at the level of lines (what str::lines hands to the parser) *)
Theorem C03_roundtrip_lines :
  forall col re file upper (a : list item),
    wf_script col re a ->
    parse_lines_list col re file upper (render_lines a) = POk (elab file upper a).
Proof. exact roundtrip_lines. Qed.
Print Assumptions C03_roundtrip_lines.

(* LF and CRLF line ends, chosen per line, with or without a final newline, give back the lines *)
Theorem C03_line_endings :
  forall (ls : list str) (eols : list bool) (final : bool),
    Forall line_ok ls -> (final = false -> last ls [] <> []) ->
    lines (unlines ls eols final) = ls.
Proof. exact lines_unlines. Qed.
Print Assumptions C03_line_endings.
