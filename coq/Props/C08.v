(* Property C08 — rewriting test files is atomic per file, never crashes, and leaves no
   debris.  Statements only.  FsUpdate.v: the operation sequence of update_test_file (temp file
   created at start / BeginInclude, one append per record, the trimmer's truncations, rename at
   EndInclude / end); a crash is a prefix of that sequence (POSIX rename assumed atomic). *)
From SLT Require Import FsTrim FsUpdate FsProofs.

(* after EVERY prefix of the operations every file being rewritten holds its old or its complete new content *)
Theorem C08_atomic :
  forall tmp evs fs0 k f,
    NoDup (opened evs) -> fresh tmp (opened evs) -> In f (opened evs) ->
    let fsk := run_ops fs0 (firstn k (ops_of tmp evs [])) in
    fsk f = fs0 f \/ (exists c, assoc_bytes f (closed_of evs []) = Some c /\ fsk f = Some c).
Proof. exact atomic_prefix. Qed.
Print Assumptions C08_atomic.

(* no write or truncation ever names an original file: only the rename of its finished temp file does *)
Theorem C08_only_rename_touches_originals :
  forall tmp evs f o,
    fresh tmp (opened evs) -> In f (opened evs) -> In o (ops_of tmp evs []) ->
    match o with
    | OpCreate p | OpAppend p _ | OpSetLen p _ => p <> f
    | OpRename s d => s <> f
    end.
Proof. exact only_rename_touches_originals. Qed.
Print Assumptions C08_only_rename_touches_originals.

(* on completion every file holds its new content and no temp file remains *)
Theorem C08_final :
  forall tmp evs fs0 f,
    balanced 0 evs = true -> NoDup (opened evs) -> fresh tmp (opened evs) ->
    (forall g, In g (opened evs) -> fs0 (tmp g) = None) ->
    In f (opened evs) ->
    let fsn := run_ops fs0 (ops_of tmp evs []) in
    (exists c, assoc_bytes f (closed_of evs []) = Some c /\ fsn f = Some c) /\ fsn (tmp f) = None.
Proof. exact final_state. Qed.
Print Assumptions C08_final.

(* the trimmer: any number of trailing newlines becomes exactly one, for files of every size *)
Theorem C08_trim :
  forall body k, last body 0%N <> 10%N -> (1 <= k)%nat ->
    trim_tail (body ++ repeat 10%N k) = TOk (body ++ [10%N]).
Proof. exact trim_tail_spec. Qed.
Print Assumptions C08_trim.

Theorem C08_trim_empty : trim_tail [] = TOk [].
Proof. exact trim_tail_empty. Qed.
Print Assumptions C08_trim_empty.

Theorem C08_trim_never_panics :
  forall f, f = [] \/ last f 0%N = 10%N -> exists b, trim_tail f = TOk b.
Proof. exact trim_tail_total. Qed.
Print Assumptions C08_trim_never_panics.

(* the truncations the trimmer issues realise it on the temp file and touch nothing else *)
Theorem C08_trim_ops :
  forall fs p c b, fs p = Some c -> trim_tail c = TOk b ->
    run_ops fs (trim_ops p c) p = Some b /\ (forall q, q <> p -> run_ops fs (trim_ops p c) q = fs q).
Proof. exact trim_ops_spec. Qed.
Print Assumptions C08_trim_ops.

(* before the fix of defect D8 the trimmer panicked on small files; where it did not, it agreed *)
Theorem C08_trim_small_refuted : exists f, last f 0%N = 10%N /\ trim_tail_v0 f = TPanic.
Proof. exact trim_tail_v0_refuted. Qed.
Print Assumptions C08_trim_small_refuted.

Theorem C08_trim_fix_conservative : forall f b, trim_tail_v0 f = TOk b -> trim_tail f = TOk b.
Proof. exact trim_tail_v0_agrees. Qed.
Print Assumptions C08_trim_fix_conservative.
