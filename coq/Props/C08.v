(* Property C08 — rewriting test files is atomic per file, never crashes, and leaves no
   debris.  Statements only.  FsUpdate.v: the operation sequence of update_test_file (temp file
   created at start / BeginInclude, one append per record, the trimmer's truncations, rename at
   EndInclude / end); a crash is a prefix of that sequence (POSIX rename assumed atomic). *)
From SLT Require Import FsTrim FsUpdate FsProofs IncludeSpec Runner Update UpdateFile1 UpdateFile3 UpdateFs.

(* after EVERY prefix of the operations every file being rewritten holds its old or its complete new content *)
Theorem C08_atomic :
  forall tmp evs fs0 k f,
    NoDup (opened evs) -> fresh tmp (opened evs) -> In f (opened evs) ->
    let fsk := run_ops fs0 (firstn k (ops_of tmp evs [])) in
    fsk f = fs0 f \/ (exists c, assoc_bytes f (closed_of evs []) = Some c /\ fsk f = Some c).
Proof. exact atomic_prefix. Qed.
Print Assumptions C08_atomic.

(* no write or truncation ever names an original file: only the rename of its finished temp file does *)
Theorem C08_only_rename_touches_originals :
  forall tmp evs f o,
    fresh tmp (opened evs) -> In f (opened evs) -> In o (ops_of tmp evs []) ->
    match o with
    | OpCreate p | OpAppend p _ | OpSetLen p _ => p <> f
    | OpRename s d => s <> f
    end.
Proof. exact only_rename_touches_originals. Qed.
Print Assumptions C08_only_rename_touches_originals.

(* on completion every file holds its new content and no temp file remains *)
Theorem C08_final :
  forall tmp evs fs0 f,
    balanced 0 evs = true -> NoDup (opened evs) -> fresh tmp (opened evs) ->
    (forall g, In g (opened evs) -> fs0 (tmp g) = None) ->
    In f (opened evs) ->
    let fsn := run_ops fs0 (ops_of tmp evs []) in
    (exists c, assoc_bytes f (closed_of evs []) = Some c /\ fsn f = Some c) /\ fsn (tmp f) = None.
Proof. exact final_state. Qed.
Print Assumptions C08_final.

(* the trimmer: any number of trailing newlines becomes exactly one, for files of every size *)
Theorem C08_trim :
  forall body k, last body 0%N <> 10%N -> (1 <= k)%nat ->
    trim_tail (body ++ repeat 10%N k) = TOk (body ++ [10%N]).
Proof. exact trim_tail_spec. Qed.
Print Assumptions C08_trim.

Theorem C08_trim_empty : trim_tail [] = TOk [].
Proof. exact trim_tail_empty. Qed.
Print Assumptions C08_trim_empty.

Theorem C08_trim_never_panics :
  forall f, f = [] \/ last f 0%N = 10%N -> exists b, trim_tail f = TOk b.
Proof. exact trim_tail_total. Qed.
Print Assumptions C08_trim_never_panics.

(* the truncations the trimmer issues realise it on the temp file and touch nothing else *)
Theorem C08_trim_ops :
  forall fs p c b, fs p = Some c -> trim_tail c = TOk b ->
    run_ops fs (trim_ops p c) p = Some b /\ (forall q, q <> p -> run_ops fs (trim_ops p c) q = fs q).
Proof. exact trim_ops_spec. Qed.
Print Assumptions C08_trim_ops.

(* before the fix of defect D8 the trimmer panicked on small files; where it did not, it agreed *)
Theorem C08_trim_small_refuted : exists f, last f 0%N = 10%N /\ trim_tail_v0 f = TPanic.
Proof. exact trim_tail_v0_refuted. Qed.
Print Assumptions C08_trim_small_refuted.

Theorem C08_trim_fix_conservative : forall f b, trim_tail_v0 f = TOk b -> trim_tail f = TOk b.
Proof. exact trim_tail_v0_agrees. Qed.
Print Assumptions C08_trim_fix_conservative.

(* ---- the same three statements for the operation sequence the UPDATER MODEL (Update.update_loop, the model the
   correspondence runs against update_test_file) actually performs: [wevs_of] instruments that loop, and
   [closed_of (wevs_of ...) [] = written] (UpdateFs.update_loop_closed_of).  The file tree must name every file once
   (NoDup: UpdateFs.Twice.double_include_second_wins shows what happens otherwise) and temp names must be fresh. *)

(* after EVERY prefix of the updater's operations, in update and in format mode, every file of the tree holds its old
   content or exactly the bytes the updater reports for it *)
Theorem C08_updater_atomic :
  forall re sep strict substitute sc format_only main rs st w written ev kn tmp fs0 k f,
    update_loop re sep strict substitute sc format_only rs [mkItem main []] false st w [] [] [] = UOk written ev kn ->
    NoDup (main :: included_files rs) -> fresh tmp (main :: included_files rs) ->
    In f (main :: included_files rs) ->
    let fsk := run_ops fs0 (firstn k (ops_of tmp (wevs_of re sep strict substitute sc format_only main rs st w) [])) in
    fsk f = fs0 f \/ (exists c, assoc_bytes f written = Some c /\ In (f, c) written /\ fsk f = Some c).
Proof. exact update_atomic. Qed.
Print Assumptions C08_updater_atomic.

(* on completion every file of the tree holds its new bytes, nothing else was written, no temp file remains *)
Theorem C08_updater_final :
  forall re sep strict substitute sc format_only main rs st w written ev kn tmp fs0,
    update_loop re sep strict substitute sc format_only rs [mkItem main []] false st w [] [] [] = UOk written ev kn ->
    nested [] rs = true ->
    NoDup (main :: included_files rs) -> fresh tmp (main :: included_files rs) ->
    let fsn := run_ops fs0 (ops_of tmp (wevs_of re sep strict substitute sc format_only main rs st w) []) in
    (forall f, In f (main :: included_files rs) ->
       (exists c, assoc_bytes f written = Some c /\ In (f, c) written /\ fsn f = Some c) /\ fsn (tmp f) = None) /\
    (forall f c, In (f, c) written ->
       In f (main :: included_files rs) /\ fsn f = Some c /\ fsn (tmp f) = None).
Proof. exact update_final. Qed.
Print Assumptions C08_updater_final.

(* each included file receives exactly its own records: the bytes on disk are the trimmed text of that file's records *)
Theorem C08_updater_ownership :
  forall re sep strict substitute sc main rs st w written ev kn tmp fs0,
    update_loop re sep strict substitute sc false rs [mkItem main []] false st w [] [] [] = UOk written ev kn ->
    nested [] rs = true ->
    NoDup (main :: included_files rs) -> fresh tmp (main :: included_files rs) ->
    let fsn := run_ops fs0 (ops_of tmp (wevs_of re sep strict substitute sc false main rs st w) []) in
    exists owned,
      split_files (updated_records re sep strict substitute sc rs st w) [(main, [])] [] = Some owned /\
      Forall2 (fun (p : str * list record) (d : str * list N) =>
                 fst d = fst p /\
                 trim_tail (utf8 (recs_text (snd p))) = TOk (snd d) /\
                 fsn (fst p) = Some (snd d) /\ fsn (tmp (fst p)) = None) owned written /\
      Forall (fun p : str * list record => Forall plain (snd p)) owned.
Proof. exact update_file_ownership. Qed.
Print Assumptions C08_updater_ownership.
