(* Property C06 — after --override the file passes against the same database and is a fixed
   point.  Statements only: at the level of one record and one answer, and (C06_file_converges)
   at the level of the whole flattened record list of a file with its includes.  The text layer
   (the formatting round trip, C05) is not part of these statements: what is read back from the
   written file is [map reread rs'].  [known_class] = [] excludes exactly the known findings D5 / D12. *)
From SLT Require Import Parser Include JudgeSpec Runner Update UpdateSpec UpdateProofs FormatSpec FormatProofs UpdateFile1 UpdateFile3 UpdateFile
  UpdateText UpdateText3 UpdateText5 UpdateText7 UpdateText8 Unparse FsTrim RunMeaning UpdateEndToEnd.

(* the rewritten record, as read back from the file, is accepted by the judge on the same
   answer, and rewriting it again leaves what is written unchanged *)
Theorem C06_record_converges :
  forall re sep cfg r a r',
    escape_law re -> judged r a ->
    known_class sep cfg r (apply cfg r a) = [] ->
    (forall ok out, a = ASys (SysExit ok out) -> ok = true) ->
    a <> ASys SysSpawnErr ->
    update_record re sep (strict_cols cfg) r (apply cfg r a) = Some r' ->
    run_record re cfg (reread r') a = Pass /\
    match update_record re sep (strict_cols cfg) (reread r') (apply cfg (reread r') a) with
    | None => True
    | Some r'' => written_expectation_eq (reread r') r''
    end.
Proof. exact update_converges. Qed.
Print Assumptions C06_record_converges.

(* a record the updater leaves alone already passes *)
Theorem C06_untouched_passes :
  forall re sep cfg r a,
    judged r a -> (forall ok out, a = ASys (SysExit ok out) -> ok = true) -> a <> ASys SysSpawnErr ->
    update_record re sep (strict_cols cfg) r (apply cfg r a) = None ->
    apply cfg r a = ONothing \/ run_record re cfg r a = Pass.
Proof. exact update_none_passes. Qed.
Print Assumptions C06_untouched_passes.

(* FILE LEVEL.  If the update of the whole record list (main file and includes, flattened with
   their markers) completes without raising a known-finding flag and no command fails, then
   running the rewritten list - as re-read from the files - with the library's run_multi from
   the SAME initial state and the SAME scripted world ends without failure and issues exactly
   the same connects, requests and sleeps (the same event list [ev]) as the update did; and a
   second update of the rewritten list issues the same events again, raises no flag, and writes
   records that re-read as the same records: a fixed point.  Covers skipped records, records
   after halt, controls, named connections and failed connects, substitution, retry clauses.
   Premises: the regex oracle satisfies the escape law; the updater's column-type strictness is
   the runner's (false otherwise: UpdateFile.Cex.strictness_mismatch_rerun_fails); retry clauses
   allow >= 1 attempt (the parser rejects `retry 0`; false otherwise: Cex.retry_zero_rerun_fails). *)
Theorem C06_file_converges :
  forall (re : str -> str -> bool) (sep : str) (strict : bool)
         (substitute : bool -> list (str * str) -> str -> subres) (sc : script)
         (main : str) (rs : list record) (st0 : rstate) (w0 : world)
         (written : list (str * list N)) (ev : list event),
    escape_law re ->
    strict = strict_cols (cfg st0) ->
    Forall retry_ok rs ->
    update_loop re sep strict substitute sc false rs [mkItem main []] false st0 w0 [] [] []
      = UOk written ev [] ->
    Forall cmd_ok (updated_outputs re sep strict substitute sc rs st0 w0) ->
    let rs' := updated_records re sep strict substitute sc rs st0 w0 in
    (exists st' w' e,
        run_multi_e re substitute sc st0 w0 (map reread rs') = (ev, st', w', e) /\
        (e = Finished \/ e = Halted) /\
        run_multi re substitute sc st0 w0 (map reread rs') = (ev, st', w', FOk)) /\
    (exists rs'' outs'',
        upd re sep strict substitute sc (map reread rs') 1 false st0 w0 = Some (rs'', ev, [], outs'') /\
        map reread rs'' = map reread rs' /\
        Forall2 (fun a b => a = b \/ written_expectation_eq a b) rs'' rs' /\
        Forall cmd_ok outs'').
Proof. exact update_file_converges. Qed.
Print Assumptions C06_file_converges.

(* the records [updated_records] are what update_loop writes: its events and flags are those of
   [upd], and each file's bytes are the trimmed text of that file's records *)
Theorem C06_written_is_updated_records :
  forall re sep strict substitute sc main rs st w written ev kn,
    update_loop re sep strict substitute sc false rs [mkItem main []] false st w [] [] [] = UOk written ev kn ->
    updated_events re sep strict substitute sc rs st w = ev /\
    updated_known re sep strict substitute sc rs st w = kn /\
    exists files,
      split_files (updated_records re sep strict substitute sc rs st w) [(main, [])] [] = Some files /\
      Forall2 closed_as files written /\
      Forall (fun r => marker r = None -> display r <> None) (updated_records re sep strict substitute sc rs st w).
Proof. exact update_loop_updated. Qed.
Print Assumptions C06_written_is_updated_records.

(* TEXT LEVEL: "updating yields a file that still parses".  For a file tree that parses (parse_file,
   no line ending in CR: known finding D16), if the update completes and every output written into
   a record is representable in the format ([out_repr]: counts within u64, error / stdout texts
   without CR LF and without two consecutive empty lines, result rows non-empty single lines, type
   strings non-empty and made of characters the column type accepts - each clause shown necessary
   by a counterexample in UpdateText8.v), then every file the updater writes holds exactly one
   file's records, and - unless that file's last non-blank record ends in an empty SQL / command
   line (known finding D19, C06_dangling_end_refuted) - its bytes are the UTF-8 of a text that
   parses, to the re-read updated records of that file up to trailing blank-line records, with the
   same meaning.  Together with C06_file_converges (which is stated on exactly these re-read
   records) this is the property at the level of file contents. *)
Theorem C06_text_reparses :
  forall col rv rm sep strict substitute sc fs glob fuel main rs st w written ev kn,
    col_stable col -> escape_valid rv ->
    (forall f s, fs f = Some (FFile s) -> no_trailing_cr s) ->
    parse_file col rv fs glob fuel main = FOkR rs ->
    update_loop rm sep strict substitute sc false rs [mkItem main []] false st w [] [] []
      = UOk written ev kn ->
    Forall2 (out_repr col sep strict) rs (updated_outputs rm sep strict substitute sc rs st w) ->
    exists files_in files_out,
      split_files rs [(main, [])] [] = Some files_in /\
      split_files (updated_records rm sep strict substitute sc rs st w) [(main, [])] [] = Some files_out /\
      Forall2 (fun pin pout => fst pout = fst pin /\ length (snd pout) = length (snd pin)) files_in files_out /\
      Forall2 (fun pout d => fst d = fst pout /\ file_reparses_exact col rv (snd pout) (snd d)) files_out written.
Proof. exact parse_file_update_text_reparses_exact. Qed.
Print Assumptions C06_text_reparses.

(* known finding D19 (witness): `statement ok` followed by an empty SQL line parses; written back
   and trimmed to one final line feed it is `statement ok` + LF, which is rejected (UnexpectedEOF) *)
Theorem C06_dangling_end_refuted :
  exists r text bytes,
    parse default_col rvT F None dangling_src = POk [r] /\
    parsed_ok default_col rvT [r] /\
    ends_in_empty_sql [r] = true /\ dangling_end [r] = true /\
    write_records [r] = Some text /\
    trim_tail (utf8 text) = TOk bytes /\
    bytes = utf8 (src ["statement ok"]%string) /\
    parse default_col rvT F None (src ["statement ok"]%string) = PErr PUnexpectedEOF 2.
Proof. exact empty_sql_at_end_does_not_reparse. Qed.
Print Assumptions C06_dangling_end_refuted.

(* ---- END TO END, single file, from the content of the file before the update to its content after it:
   the written file (1) parses, (2) passes against the same database from the same initial state with exactly the
   events of the update, and (3) a second update of it reproduces the same bytes, events and no flag.
   Premises: the known findings are excluded exactly (no_trailing_cr = D16, no flag = D5/D12, dangling_end = D19), the
   answers are representable (out_repr), commands succeed (cmd_ok), the oracles satisfy their laws. *)
(* the runner's behaviour depends only on the meaning of the script *)
Theorem C06_run_depends_on_meaning :
  forall (re : str -> str -> bool) (substitute : bool -> list (str * str) -> str -> subres) (sc : script)
         (A B : list record), meaning A = meaning B ->
    forall st w ev st' w' e,
      run_multi_e re substitute sc st w A = (ev, st', w', e) ->
      exists e', run_multi_e re substitute sc st w B = (ev, st', w', e') /\ ending_eq_modloc e e'.
Proof. exact run_multi_meaning. Qed.
Print Assumptions C06_run_depends_on_meaning.

(* from the content of the file before the update to the content after it *)
Theorem C06_end_to_end_source :
  forall (col : N -> option N) (rv : str -> bool) (re : str -> str -> bool) (sep : str) (strict : bool)
         (substitute : bool -> list (str * str) -> str -> subres) (sc : script),
    col_stable col -> escape_valid rv -> escape_law re ->
    forall (file : str) (upper : option loc) (main : str) (s : str) (rs : list record)
           (st0 : rstate) (w0 : world) (written : list (str * list N)) (ev : list event),
      no_trailing_cr s ->
      parse col rv file upper s = POk rs ->
      strict = strict_cols (cfg st0) ->
      update_loop re sep strict substitute sc false rs [mkItem main []] false st0 w0 [] [] []
        = UOk written ev [] ->
      Forall2 (out_repr col sep strict) rs (updated_outputs re sep strict substitute sc rs st0 w0) ->
      Forall cmd_ok (updated_outputs re sep strict substitute sc rs st0 w0) ->
      dangling_end (updated_records re sep strict substitute sc rs st0 w0) = false ->
      exists text R,
        written = [(main, utf8 text)] /\
        parse col rv file upper text = POk R /\
        meaning R = meaning (map reread (updated_records re sep strict substitute sc rs st0 w0)) /\
        (exists st' w',
            run_multi re substitute sc st0 w0 R = (ev, st', w', FOk) /\
            exists e, run_multi_e re substitute sc st0 w0 R = (ev, st', w', e) /\ (e = Finished \/ e = Halted)) /\
        update_loop re sep strict substitute sc false R [mkItem main []] false st0 w0 [] [] []
          = UOk written ev [] /\
        (exists R2 outs2,
            upd re sep strict substitute sc R 1 false st0 w0 = Some (R2, ev, [], outs2) /\
            Forall cmd_ok outs2 /\
            Forall (fun r => display r <> None) R2 /\
            trim_tail (utf8 (recs_text R2)) = TOk (utf8 text)).
Proof. exact update_end_to_end_single_source. Qed.
Print Assumptions C06_end_to_end_source.

