(* Property C06 — after --override the file passes against the same database and is a fixed
   point.  Statements only, at the level of one record and one answer (the file level - same
   requests in the same order on the rerun, included files, the formatting round trip of C05 -
   is what the correspondence on whole trees checks: update, run against the same scripted
   database, update again).  [known_class] = [] excludes exactly the known findings D5 / D12. *)
From SLT Require Import JudgeSpec Update UpdateSpec UpdateProofs.

(* the rewritten record, as read back from the file, is accepted by the judge on the same
   answer, and rewriting it again leaves what is written unchanged *)
Theorem C06_record_converges :
  forall re sep cfg r a r',
    escape_law re -> judged r a ->
    known_class sep cfg r (apply cfg r a) = [] ->
    (forall ok out, a = ASys (SysExit ok out) -> ok = true) ->
    a <> ASys SysSpawnErr ->
    update_record re sep (strict_cols cfg) r (apply cfg r a) = Some r' ->
    run_record re cfg (reread r') a = Pass /\
    match update_record re sep (strict_cols cfg) (reread r') (apply cfg (reread r') a) with
    | None => True
    | Some r'' => written_expectation_eq (reread r') r''
    end.
Proof. exact update_converges. Qed.
Print Assumptions C06_record_converges.

(* a record the updater leaves alone already passes *)
Theorem C06_untouched_passes :
  forall re sep cfg r a,
    judged r a -> (forall ok out, a = ASys (SysExit ok out) -> ok = true) -> a <> ASys SysSpawnErr ->
    update_record re sep (strict_cols cfg) r (apply cfg r a) = None ->
    apply cfg r a = ONothing \/ run_record re cfg r a = Pass.
Proof. exact update_none_passes. Qed.
Print Assumptions C06_untouched_passes.
