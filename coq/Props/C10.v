(* Property C10 — rowsort / valuesort make the verdict order-independent; nosort keeps
   order; query-level mode overrides the file-level one.  Statements only. *)
From Coq Require Import Sorting.Sorted Sorting.Permutation.
From SLT Require Import Judge ShapeProofs.

(* for every regex oracle, configuration, record and every reordering of the rows *)
Theorem C10_rowsort_perm :
  forall re cfg l cs c sql e r t rows rows',
    eff_sort (query_sort e) (file_sort cfg) = Some RowSort -> Permutation rows rows' ->
    run_record re cfg (RQuery l cs c sql e r) (ADb (DRows t rows)) =
    run_record re cfg (RQuery l cs c sql e r) (ADb (DRows t rows')).
Proof. exact verdict_rowsort_perm. Qed.
Print Assumptions C10_rowsort_perm.

(* ... and every reordering of the individual values, even across row boundaries *)
Theorem C10_valuesort_perm :
  forall re cfg l cs c sql e r t rows rows',
    eff_sort (query_sort e) (file_sort cfg) = Some ValueSort ->
    Permutation (values_of rows) (values_of rows') ->
    run_record re cfg (RQuery l cs c sql e r) (ADb (DRows t rows)) =
    run_record re cfg (RQuery l cs c sql e r) (ADb (DRows t rows')).
Proof. exact verdict_valuesort_perm. Qed.
Print Assumptions C10_valuesort_perm.

(* the expected lines are matched against THE ascending arrangement of the rows ... *)
Theorem C10_rowsort_ascending :
  forall f q types rows,
    eff_sort q f = Some RowSort ->
    let s := shape f 0 q types rows in Permutation s rows /\ StronglySorted row_le s.
Proof. exact shape_rowsort_sorted. Qed.
Print Assumptions C10_rowsort_ascending.

(* ... respectively of the single values *)
Theorem C10_valuesort_ascending :
  forall f q types rows,
    eff_sort q f = Some ValueSort ->
    let s := shape f 0 q types rows in
    Permutation (values_of s) (values_of rows) /\ StronglySorted row_le s /\
    Forall (fun r => length r = 1%nat) s.
Proof. exact shape_valuesort_sorted. Qed.
Print Assumptions C10_valuesort_ascending.

(* the ascending arrangement is unique, so "sorted" has exactly one meaning *)
Theorem C10_sort_unique :
  forall rows s, Permutation s rows -> StronglySorted row_le s -> sort_rows rows = s.
Proof. exact sort_rows_spec. Qed.
Print Assumptions C10_sort_unique.

(* without a sort mode the database's order is significant *)
Theorem C10_nosort_strict :
  forall re cfg l cs c sql etypes qs lbl results r t rows,
    eff_sort qs (file_sort cfg) = None \/ eff_sort qs (file_sort cfg) = Some NoSort ->
    threshold cfg = 0%N -> rmode cfg <> Some ValueWise ->
    col_validate (strict_cols cfg) t etypes = true ->
    (run_record re cfg (RQuery l cs c sql (QResults etypes qs lbl results) r) (ADb (DRows t rows)) = Pass
       <-> map norm_row rows = map normalize results) /\
    (map norm_row rows <> map normalize results ->
     run_record re cfg (RQuery l cs c sql (QResults etypes qs lbl results) r) (ADb (DRows t rows)) = Fail KResultMismatch).
Proof. exact verdict_nosort_strict. Qed.
Print Assumptions C10_nosort_strict.

(* a mode written on the query (an explicit nosort included) wins over control sortmode *)
Theorem C10_precedence :
  forall f, (forall m, eff_sort (Some m) f = Some m) /\ eff_sort None f = f.
Proof. exact (fun f => conj (fun m => eff_sort_query m f) (eff_sort_file f)). Qed.
Print Assumptions C10_precedence.
