(* Property C02 — a script runs top to bottom, once per record, and stops at the first
   failure.  Statements only.  (That `sql` is the record's lines joined by LF is the
   parser's part: C03; retries: C09.) *)
From SLT Require Import Runner RunnerProofs.

(* the trace of a run is the concatenation, in order, of the events of exactly the records
   before the first halt / up to and including the first failing record; the failure is
   reported at that record's location; nothing after it contributes *)
Theorem C02_trace :
  forall re substitute sc rs st w ev st' w' e,
    run_multi_e re substitute sc st w rs = (ev, st', w', e) ->
    exists pre post, rs = pre ++ post /\
      match e with
      | Finished => post = [] /\ all_pass re substitute sc st w pre ev st' w'
      | Halted => (exists l rest, post = RHalt l :: rest) /\ all_pass re substitute sc st w pre ev st' w'
      | Stopped f =>
          exists pre' r ev1 st1 w1 ev2 o v,
            pre = pre' ++ [r] /\ not_halt r /\ all_pass re substitute sc st w pre' ev1 st1 w1 /\
            run_async re substitute sc st1 w1 r = (ev2, st', w', o, v) /\ ev = ev1 ++ ev2 /\ v <> Pass /\
            f = match v with Fail k => FErr k (record_loc r) | _ => FBug end
      end.
Proof. exact run_multi_trace. Qed.
Print Assumptions C02_trace.

(* the run succeeds iff it reached the end of the script or a halt *)
Theorem C02_result :
  forall re substitute sc rs st w ev st' w' e,
    run_multi_e re substitute sc st w rs = (ev, st', w', e) ->
    (final_of e = FOk <-> (e = Finished \/ e = Halted)).
Proof. exact run_multi_result. Qed.
Print Assumptions C02_result.

(* halt ends the run successfully at that point *)
Theorem C02_halt :
  forall re substitute sc st w l rs,
    run_multi_e re substitute sc st w (RHalt l :: rs) = ([], st, w, Halted).
Proof. exact run_multi_halt. Qed.
Print Assumptions C02_halt.

(* compositionality: earlier records are unaffected by later ones, later ones start from the
   state (controls, threshold, sessions) the earlier ones left *)
Theorem C02_compositional :
  forall re substitute sc rs1 rs2 st w,
    run_multi_e re substitute sc st w (rs1 ++ rs2) =
      let '(ev1, st1, w1, e1) := run_multi_e re substitute sc st w rs1 in
      match e1 with
      | Finished => let '(ev2, st2, w2, e2) := run_multi_e re substitute sc st1 w1 rs2 in (ev1 ++ ev2, st2, w2, e2)
      | _ => (ev1, st1, w1, e1)
      end.
Proof. exact run_multi_app. Qed.
Print Assumptions C02_compositional.

(* control / hash-threshold records: no event, no output, only their own field changes *)
Theorem C02_control_scope :
  forall substitute sc st w r,
    (forall c, r = RControl c ->
       apply_record substitute sc st w r =
         ([], match c with
              | CtlSortMode m => set_cfg st (mkConfig (Some m) (rmode (cfg st)) (threshold (cfg st)) (strict_cols (cfg st)))
              | CtlResultMode m => set_cfg st (mkConfig (file_sort (cfg st)) (Some m) (threshold (cfg st)) (strict_cols (cfg st)))
              | CtlSubstitution b => mkRState (cfg st) b (labels st) (conns st) (vars st)
              end, w, ONothing)) /\
    (forall l n, r = RHashThreshold l n ->
       apply_record substitute sc st w r =
         ([], set_cfg st (mkConfig (file_sort (cfg st)) (rmode (cfg st)) n (strict_cols (cfg st))), w, ONothing)).
Proof. exact control_scope. Qed.
Print Assumptions C02_control_scope.

(* with substitution off the SQL text reaches the database byte for byte *)
Theorem C02_sql_verbatim :
  forall substitute st b s, subst_on st = false -> may_substitute substitute st b s = SubOk s.
Proof. exact subst_off_identity. Qed.
Print Assumptions C02_sql_verbatim.
