(* Property C12 — `connection NAME` routes only the next record; sessions are isolated and
   closed.  Statements only.  (That the name governing a record is the one written on the
   connection line immediately before it, and Default otherwise, is the parser's part: C03.) *)
From SLT Require Import Runner RunnerProofs.

(* the connection table refines a finite map name -> session: get returns the existing
   session or creates exactly one fresh one, and never disturbs another name *)
Theorem C12_refines_map :
  forall sc st w c ev st' w' id,
    get_conn sc st w c = (ev, st', w', Some id) ->
    find_conn c (conns st') = Some id /\
    (forall c', c' <> c -> find_conn c' (conns st') = find_conn c' (conns st)) /\
    (find_conn c (conns st) = Some id -> ev = [] /\ st' = st /\ w' = w) /\
    (find_conn c (conns st) = None -> ev = [EConnect id] /\ id = next_conn w /\ next_conn w' = (id + 1)%N).
Proof. exact get_conn_refines_map. Qed.
Print Assumptions C12_refines_map.

(* every request of a statement goes to the session bound to the record's connection name *)
Theorem C12_routing_statement :
  forall substitute sc st w l cs c sql e r sql' ev st1 w1 id,
    may_substitute substitute st true sql = SubOk sql' ->
    get_conn sc st w c = (ev, st1, w1, Some id) ->
    should_skip (labels st1) (engine sc) cs = false ->
    exists d w2, apply_record substitute sc st w (RStatement l cs c sql e r) =
                   (ev ++ [ESql id sql'], st1, w2, apply_stmt d) /\
                 find_conn c (conns st1) = Some id /\ calls w2 = (calls w1 + 1)%N /\ quiet ev.
Proof. exact executed_statement. Qed.
Print Assumptions C12_routing_statement.

Theorem C12_routing_query :
  forall substitute sc st w l cs c sql e r sql' ev st1 w1 id,
    may_substitute substitute st true sql = SubOk sql' ->
    get_conn sc st w c = (ev, st1, w1, Some id) ->
    should_skip (labels st1) (engine sc) cs = false ->
    exists d w2, apply_record substitute sc st w (RQuery l cs c sql e r) =
                   (ev ++ [ESql id sql'], st1, w2, apply_query (cfg st1) e d) /\
                 find_conn c (conns st1) = Some id /\ calls w2 = (calls w1 + 1)%N /\ quiet ev.
Proof. exact executed_query. Qed.
Print Assumptions C12_routing_query.

(* over any script, retries, halts and failures included: the table stays well-formed, exactly one
   session is created per newly used name, and a name keeps its session once bound *)
Theorem C12_once_and_reused :
  forall re substitute sc rs st w ev st' w' e,
    run_multi_e re substitute sc st w rs = (ev, st', w', e) ->
    conn_inv st w ->
    conn_inv st' w' /\
    (count_connects ev + length (conns st) = length (conns st'))%nat /\
    (forall c id, find_conn c (conns st) = Some id -> find_conn c (conns st') = Some id).
Proof. exact sessions_once. Qed.
Print Assumptions C12_once_and_reused.

(* distinct names (case-sensitive) never share a session *)
Theorem C12_isolated :
  forall st w c1 c2 id,
    conn_inv st w -> find_conn c1 (conns st) = Some id -> find_conn c2 (conns st) = Some id -> c1 = c2.
Proof. exact sessions_isolated. Qed.
Print Assumptions C12_isolated.

(* shutting the runner down closes every session that was opened, each once *)
Theorem C12_shutdown :
  forall st,
    shutdown_all st = map (fun p => EShutdown (snd p)) (conns st) /\
    length (shutdown_all st) = length (conns st) /\
    (forall c id, find_conn c (conns st) = Some id -> In (EShutdown id) (shutdown_all st)).
Proof. exact shutdown_closes_all. Qed.
Print Assumptions C12_shutdown.
