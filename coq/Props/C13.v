(* Property C13 — substitution: off by default, documented forms only, per-runner test
   directory.  Statements only.  Subst.v models substitution.rs and the subst crate;
   SubstSpec.v holds abstract templates, their rendering and the documented expansion. *)
From SLT Require Import Runner RunnerProofs Subst SubstSpec SubstProofs.

(* off (the default): SQL and commands are delivered unchanged, dollar signs and backslashes included *)
Theorem C13_off_identity :
  forall substitute st b s, subst_on st = false -> may_substitute substitute st b s = SubOk s.
Proof. exact subst_off_identity. Qed.
Print Assumptions C13_off_identity.

(* on: $VAR, ${VAR}, ${VAR:default} (nested), \$ \\ \{ \} \: expand as documented; an undefined
   variable without default fails the record, naming the variable; nothing reaches the database *)
Theorem C13_sql :
  forall env locals t, wf_tmpl true t ->
    substitute_sql env locals (render_t t) =
      match expand_spec (var_lookup env locals) t with
      | inr text => SText text
      | inl name => SErrMsg (lit "substitution failed: No such variable: $" ++ name)
      end.
Proof. exact substitute_sql_spec. Qed.
Print Assumptions C13_sql.

(* specials first, then runner-local variables, then the process environment *)
Theorem C13_lookup_order :
  forall env locals k,
    var_lookup env locals k =
      if str_eqb k (lit "__TEST_DIR__") then Some TESTDIR
      else if str_eqb k (lit "__NOW__") then Some NOW
      else match assoc_str k locals with Some v => Some v | None => env k end.
Proof. exact var_lookup_order. Qed.
Print Assumptions C13_lookup_order.

Theorem C13_locals_shadow_environment :
  forall env locals k v, k <> lit "__TEST_DIR__" -> k <> lit "__NOW__" ->
    assoc_str k locals = Some v -> var_lookup env locals k = Some v.
Proof. exact locals_shadow_env. Qed.
Print Assumptions C13_locals_shadow_environment.

(* inserted values are neither re-expanded nor re-escaped *)
Theorem C13_value_verbatim :
  forall lookup n v rest x, lookup n = Some v -> expand_spec lookup rest = inr x ->
    expand_spec lookup (TBrace n rest) = inr (v ++ x) /\ expand_spec lookup (TBare n rest) = inr (v ++ x).
Proof. exact value_verbatim. Qed.
Print Assumptions C13_value_verbatim.

(* commands: only the specials and the runner-local variables are replaced; otherwise left to the shell *)
Theorem C13_cmd_identity :
  forall locals s,
    contains (lit "$__TEST_DIR__") s = false -> contains (lit "$__NOW__") s = false ->
    (forall k v, In (k, v) locals -> contains (36%N :: k) s = false) ->
    substitute_cmd locals s = s.
Proof. exact substitute_cmd_identity. Qed.
Print Assumptions C13_cmd_identity.

(* known finding D9: a `$` that ends the text makes the dependency panic *)
Theorem C13_trailing_dollar_refuted :
  forall env locals s, Forall (fun c => is_special c = false) s ->
    substitute_sql env locals (s ++ [36%N]) = SPanicked.
Proof. exact trailing_dollar_panics. Qed.
Print Assumptions C13_trailing_dollar_refuted.
