(* Property C01 — a record passes exactly when the answer meets its expectation, and a
   failure names the real reason.  Statements only.  [expect_met] / [reason] are the
   declarative rules of JudgeSpec.v; [run_record] is the code-shaped model of
   apply_record + run_async_no_retry (Judge.v). *)
From SLT Require Import JudgeSpec JudgeProofs.

Theorem C01_pass_iff_expectation_met :
  forall re cfg r a, judged r a ->
    (run_record re cfg r a = Pass <-> expect_met re cfg r a).
Proof. exact judge_pass_iff. Qed.
Print Assumptions C01_pass_iff_expectation_met.

Theorem C01_failure_names_the_reason :
  forall re cfg r a k, judged r a ->
    run_record re cfg r a = Fail k -> k = reason cfg r a.
Proof. exact judge_fail_reason. Qed.
Print Assumptions C01_failure_names_the_reason.

Theorem C01_never_unreachable :
  forall re cfg r a, judged r a -> run_record re cfg r a <> Unreachable.
Proof. exact judge_total. Qed.
Print Assumptions C01_never_unreachable.

Theorem C01_verdict :
  forall re cfg r a, judged r a ->
    (expect_met re cfg r a -> run_record re cfg r a = Pass) /\
    (~ expect_met re cfg r a -> run_record re cfg r a = Fail (reason cfg r a)).
Proof. exact judge_correct. Qed.
Print Assumptions C01_verdict.
