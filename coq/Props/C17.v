(* Property C17 — parallel runs give every file its own database and clean up afterwards.
   Statements only.  Par.v: the observer automaton whose steps are enabled as the CLI's
   run_parallel enables them (see its header); the theorems hold for EVERY trace it accepts -
   all interleavings, any number of files, jobs and sessions.  That the implementation produces
   only accepted traces is what the correspondence samples (engine-side logs of the real binary). *)
From SLT Require Import Par ParProofs.

Theorem C17_create_before_use :
  forall pa pre e post st db s, prun pa pst0 (pre ++ e :: post) = Some st ->
    (e = PConnect db s \/ e = PSql db s \/ e = PDrop db) -> In (PCreate db) pre.
Proof. exact create_before_use. Qed.
Print Assumptions C17_create_before_use.

(* every statement goes to the session it was opened on, for the database it was opened for *)
Theorem C17_session_integrity :
  forall pa pre e post st db s, prun pa pst0 (pre ++ e :: post) = Some st ->
    (e = PSql db s \/ e = PClose db s) -> In (PConnect db s) pre /\ ~ In (PClose db s) pre.
Proof. exact session_integrity. Qed.
Print Assumptions C17_session_integrity.

Theorem C17_session_unique :
  forall pa pre post st db db' s, prun pa pst0 (pre ++ PConnect db s :: post) = Some st ->
    ~ In (PConnect db' s) pre.
Proof. exact session_unique. Qed.
Print Assumptions C17_session_unique.

(* never more files in flight than jobs *)
Theorem C17_bounded_concurrency :
  forall pa tr st, prun pa pst0 tr = Some st ->
    (length (inflight st) <= jobs pa)%nat /\
    (forall db, has_open db (sessions st) = true -> In db (inflight st)).
Proof. exact bounded_concurrency. Qed.
Print Assumptions C17_bounded_concurrency.

Theorem C17_close_before_drop :
  forall pa pre post st db, prun pa pst0 (pre ++ PDrop db :: post) = Some st ->
    forall s, In (PConnect db s) pre -> In (PClose db s) pre.
Proof. exact close_before_drop. Qed.
Print Assumptions C17_close_before_drop.

Theorem C17_dropped_exactly_once_unless_kept :
  forall pa tr st, prun pa pst0 tr = Some st -> closed_ st = true ->
    forall db, In (PCreate db) tr ->
      (mem db (kept pa) = true /\ ~ In (PDrop db) tr) \/
      (mem db (kept pa) = false /\ count_occ pev_eq_dec tr (PDrop db) = 1%nat).
Proof. exact dropped_exactly_once. Qed.
Print Assumptions C17_dropped_exactly_once_unless_kept.

(* ---- the driver itself (Driver.v: a small-step model of run_parallel and of the per-file
   tasks, every scheduling decision an explicit choice): whatever the scheduler does, whenever
   Ctrl-C arrives and in whichever order a file's sessions are closed, the trace it emits is a
   trace of the observer automaton above - so every theorem of this file holds of every run of
   the driver model, not only of "accepted traces". *)
From SLT Require Import Driver DriverInv DriverSim.

Theorem C17_driver_refines_observer :
  forall cf sched st tr, wf_cfg cf -> drun cf (dst0 cf) sched = (st, tr) ->
    accepts (mkParams (c_jobs cf) (kept_of cf st)) tr = true.
Proof. exact driver_accepted. Qed.
Print Assumptions C17_driver_refines_observer.

(* a finished run has closed the management connection: C17_dropped_exactly_once_unless_kept and
   C19_release apply to it, with kept = the failed files' databases under --keep-db-on-failure
   (all of them after a refused connection) *)
Theorem C17_driver_end_closed :
  forall cf sched st tr, wf_cfg cf -> drun cf (dst0 cf) sched = (st, tr) -> d_phase st = DEnd ->
    exists p, prun (mkParams (c_jobs cf) (kept_of cf st)) pst0 tr = Some p /\ closed_ p = true.
Proof. exact driver_end_closed. Qed.
Print Assumptions C17_driver_end_closed.

(* the clauses of the property for a finished run of the driver model, the kept databases spelled out *)
Theorem C17_driver_finished_run_cleans_up :
  forall cf sched st tr, wf_cfg cf -> drun cf (dst0 cf) sched = (st, tr) -> d_phase st = DEnd ->
    (forall db s, In (PConnect db s) tr -> In (PClose db s) tr) /\
    forall f, In f (c_files cf) ->
      In (PCreate (f_db f)) tr /\
      ((mem (f_db f) (kept_of cf st) = true /\ ~ In (PDrop (f_db f)) tr) \/
       (mem (f_db f) (kept_of cf st) = false /\ count_occ pev_eq_dec tr (PDrop (f_db f)) = 1%nat)).
Proof. exact driver_finished_run_cleans_up. Qed.
Print Assumptions C17_driver_finished_run_cleans_up.

(* at no point of any run does the stream hold more than [jobs] files (spawned and not yet reported) *)
Theorem C17_driver_holds_at_most_jobs :
  forall cf sched st tr, drun cf (dst0 cf) sched = (st, tr) -> (n_active (d_tasks st) <= c_jobs cf)%nat.
Proof. exact driver_holds_at_most_jobs. Qed.
Print Assumptions C17_driver_holds_at_most_jobs.

Theorem C17_driver_files_in_flight_bounded :
  forall cf sched st tr, wf_cfg cf -> drun cf (dst0 cf) sched = (st, tr) ->
    exists p, prun (mkParams (c_jobs cf) (kept_of cf st)) pst0 tr = Some p /\
              (length (inflight p) <= c_jobs cf)%nat /\
              (forall db, has_open db (sessions p) = true -> In db (inflight p)).
Proof. exact driver_files_in_flight_bounded. Qed.
Print Assumptions C17_driver_files_in_flight_bounded.
