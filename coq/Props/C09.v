(* Property C09 — retry: at most N attempts, stop at the first pass, wait the backoff
   in between.  Statements only.
   [potential n s] lists what attempts 1..n would do if every earlier one failed;
   [executed n s]  = the prefix of it up to and including the first passing attempt. *)
From SLT Require Import Runner RetryProofs.

(* what run_async does for a record with `retry N backoff D`:
   exactly the executed attempts, each failed one followed by one wait of D;
   the verdict (and state, and on success the output) of the last executed attempt *)
Theorem C09_retry :
  forall re substitute sc st w r rt,
    record_retry r = Some rt ->
    let n := N.to_nat (attempts rt) in
    let ex := executed _ _ (att re substitute sc r) n (st, w) in
    let '(ev, st', w', o, v) := run_async re substitute sc st w r in
    ev = trace_of _ _ (backoff rt) ex /\
    v = last_of (map (r_verdict _ _) ex) Unreachable /\
    (st', w') = last_of (map (r_state _ _) ex) (st, w) /\
    (v = Pass -> o = last_of (map (r_output _ _) ex) ONothing).
Proof. exact run_async_retry. Qed.
Print Assumptions C09_retry.

(* number of executions = min(index of the first passing attempt, N) *)
Theorem C09_execution_count :
  forall St Out (attempt : St -> list event * St * Out * verdict) n s,
    length (executed _ _ attempt n s) =
      match first_pass _ _ (potential _ _ attempt n s) with Some i => S i | None => n end /\
    (forall i, first_pass _ _ (potential _ _ attempt n s) = Some i -> (i < n)%nat).
Proof. exact execution_count. Qed.
Print Assumptions C09_execution_count.

(* every executed attempt but the last failed, and an attempt that is last either passed or
   was the N-th: the record is never executed again after a pass *)
Theorem C09_stop_at_first_pass :
  forall St Out (l : list (list event * St * Out * verdict)),
    Forall (fun a => passes _ _ a = false) (removelast (upto_first_pass _ _ l)) /\
    (forall a, last (map Some (upto_first_pass _ _ l)) None = Some a ->
       passes _ _ a = true \/ first_pass _ _ l = None).
Proof. exact executed_shape. Qed.
Print Assumptions C09_stop_at_first_pass.

(* succeeds iff one of the first N attempts passes *)
Theorem C09_verdict :
  forall St Out (l : list (list event * St * Out * verdict)) lastv,
    lastv <> Pass ->
    (last_of (map (r_verdict _ _) (upto_first_pass _ _ l)) lastv = Pass <-> existsb (passes _ _) l = true).
Proof. exact pass_iff_some_attempt_passes. Qed.
Print Assumptions C09_verdict.

(* a record without a retry clause is executed exactly once, with no wait *)
Theorem C09_no_retry_once :
  forall re substitute sc st w r,
    record_retry r = None ->
    run_async re substitute sc st w r = run_no_retry re substitute sc st w r.
Proof. exact run_async_no_retry. Qed.
Print Assumptions C09_no_retry_once.
