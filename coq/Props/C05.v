(* Property C05 — formatting a test file never changes its meaning and is idempotent.
   Statements only.  [write_records] (Unparse.v) is the model of Display for records with one
   line feed after each, as --format / --override write them; [sem_eq] (FormatSpec.v): same
   executable records in the same order with the same SQL / command text, expectation, column
   types, sort mode, label, retry clause, conditions, connection and comment lines.
   Premises: [col_stable] - the column type's characters are fixed points of from_char/to_char
   (true of DefaultColumnType and of the harness's two-letter type); [no_trailing_cr] - no
   physical line ends in a carriage return after str::lines (known finding D16 otherwise). *)
From SLT Require Import Parser Unparse FormatSpec Render RenderProofs FormatProofs FsTrim Include Runner Update
  UpdateFile1 UpdateFile3 UpdateText UpdateText7 FormatFile.
Open Scope N_scope.

Theorem C05_format_sound :
  forall col re file upper s rs,
    col_stable col -> no_trailing_cr s -> parse col re file upper s = POk rs ->
    exists f rs', write_records rs = Some f /\ parse col re file upper f = POk rs' /\ sem_eq rs rs'.
Proof. exact format_sound. Qed.
Print Assumptions C05_format_sound.

Theorem C05_format_idem :
  forall col re file upper s rs f rs',
    col_stable col -> no_trailing_cr s -> parse col re file upper s = POk rs -> write_records rs = Some f ->
    parse col re file upper f = POk rs' -> write_records rs' = Some f.
Proof. exact format_idem. Qed.
Print Assumptions C05_format_idem.

(* every duration the format can hold is written as one word that humantime reads back *)
Theorem C05_duration_roundtrip :
  forall d, d <= U64MAX * NS_PER_S + 999999999 ->
    parse_duration (compact_duration d) = DOk d /\ token (compact_duration d).
Proof. exact compact_duration_roundtrip. Qed.
Print Assumptions C05_duration_roundtrip.

Theorem C05_default_columns_stable : col_stable default_col.
Proof. exact default_col_stable. Qed.
Print Assumptions C05_default_columns_stable.

(* ---- THROUGH `--format` ON REAL FILES (the model of the CLI's format mode is update_loop with format_only = true,
   followed by the trailing-newline trimmer).  For a file that parses and has no line ending in CR (D16): nothing is
   executed, the file is rewritten with the trimmed text of its records and - unless its last non-blank record ends in an
   empty SQL line (known finding D19) - that content parses again to a script with the same meaning, and formatting the
   parsed-back records again writes exactly the same bytes. *)
Theorem C05_format_file_single :
  forall (col : N -> option N) (rv : str -> bool) (rm : str -> str -> bool) (sep : str) (strict : bool)
         (substitute : bool -> list (str * str) -> str -> subres) (sc : script),
    col_stable col ->
    forall (pfile : str) (upper : option loc) (main : str) (s : str) (rs : list record)
           (st : rstate) (w : world) (written : list (str * list N)) (ev : list event) (kn : list N),
      no_trailing_cr s ->
      parse col rv pfile upper s = POk rs ->
      update_loop rm sep strict substitute sc true rs [mkItem main []] false st w [] [] []
        = UOk written ev kn ->
      ev = [] /\ kn = [] /\
      exists bytes,
        written = [(main, bytes)] /\
        trim_tail (utf8 (recs_text rs)) = TOk bytes /\
        (dangling_end rs = false ->
         exists text R,
           bytes = utf8 text /\
           (* the file written parses, to the same meaning *)
           parse col rv pfile upper text = POk R /\
           meaning R = meaning rs /\
           (* and formatting it again reproduces the bytes *)
           update_loop rm sep strict substitute sc true R [mkItem main []] false st w [] [] []
             = UOk written [] []).
Proof. exact format_file_single. Qed.
Print Assumptions C05_format_file_single.

(* the same for every file of an include tree: each file receives exactly its own records, read from its own content *)
Theorem C05_format_file_tree :
  forall (col : N -> option N) (rv : str -> bool) (rm : str -> str -> bool) (sep : str) (strict : bool)
         (substitute : bool -> list (str * str) -> str -> subres) (sc : script)
         (fs : str -> option fentry) (glob : str -> globres) (fuel : nat) (main : str)
         (rs : list record) (st : rstate) (w : world)
         (written : list (str * list N)) (ev : list event) (kn : list N),
    col_stable col ->
    (forall f s, fs f = Some (FFile s) -> no_trailing_cr s) ->
    parse_file col rv fs glob fuel main = FOkR rs ->
    update_loop rm sep strict substitute sc true rs [mkItem main []] false st w [] [] []
      = UOk written ev kn ->
    ev = [] /\ kn = [] /\
    exists files_in,
      split_files rs [(main, [])] [] = Some files_in /\
      Forall (from_source col rv fs) files_in /\
      Forall2 (fun (pin : str * list record) (d : str * list N) =>
                 fst d = fst pin /\
                 trim_tail (utf8 (recs_text (snd pin))) = TOk (snd d) /\
                 format_fixed_point col rv rm sep strict substitute sc (snd pin) (snd d))
              files_in written.
Proof. exact format_file_end_to_end. Qed.
Print Assumptions C05_format_file_tree.
