(* Property C05 — formatting a test file never changes its meaning and is idempotent.
   Statements only.  [write_records] (Unparse.v) is the model of Display for records with one
   line feed after each, as --format / --override write them; [sem_eq] (FormatSpec.v): same
   executable records in the same order with the same SQL / command text, expectation, column
   types, sort mode, label, retry clause, conditions, connection and comment lines.
   Premises: [col_stable] - the column type's characters are fixed points of from_char/to_char
   (true of DefaultColumnType and of the harness's two-letter type); [no_trailing_cr] - no
   physical line ends in a carriage return after str::lines (known finding D16 otherwise). *)
From SLT Require Import Parser Unparse FormatSpec Render RenderProofs FormatProofs.
Open Scope N_scope.

Theorem C05_format_sound :
  forall col re file upper s rs,
    col_stable col -> no_trailing_cr s -> parse col re file upper s = POk rs ->
    exists f rs', write_records rs = Some f /\ parse col re file upper f = POk rs' /\ sem_eq rs rs'.
Proof. exact format_sound. Qed.
Print Assumptions C05_format_sound.

Theorem C05_format_idem :
  forall col re file upper s rs f rs',
    col_stable col -> no_trailing_cr s -> parse col re file upper s = POk rs -> write_records rs = Some f ->
    parse col re file upper f = POk rs' -> write_records rs' = Some f.
Proof. exact format_idem. Qed.
Print Assumptions C05_format_idem.

(* every duration the format can hold is written as one word that humantime reads back *)
Theorem C05_duration_roundtrip :
  forall d, d <= U64MAX * NS_PER_S + 999999999 ->
    parse_duration (compact_duration d) = DOk d /\ token (compact_duration d).
Proof. exact compact_duration_roundtrip. Qed.
Print Assumptions C05_duration_roundtrip.

Theorem C05_default_columns_stable : col_stable default_col.
Proof. exact default_col_stable. Qed.
Print Assumptions C05_default_columns_stable.
