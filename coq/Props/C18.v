(* Property C18 — partitions are disjoint, exhaustive and stable across processes.
   Statements only.  The cover theorems hold for ANY hash function of the path; that the
   implementation's choice is the pure function SipHash-1-3(path bytes ++ 0xFF) mod N, with no
   process state, is what the correspondence with the real binary establishes. *)
From SLT Require Import Partition PartitionProofs.
Open Scope N_scope.

Theorem C18_cover :
  forall (h : str -> N) count p, 0 < count -> exists! id, id < count /\ selected h count id p = true.
Proof. exact cover_unique. Qed.
Print Assumptions C18_cover.

(* over the ids 0..n-1 every file of a glob lies in exactly one selection *)
Theorem C18_partition_exact :
  forall (h : str -> N) (n : nat) (files : list str) p,
    (0 < n)%nat -> In p files ->
    exists id, In id (ids n) /\ In p (filter (selected h (N.of_nat n) id) files) /\
               forall id', In id' (ids n) -> In p (filter (selected h (N.of_nat n) id') files) -> id' = id.
Proof. exact partition_exact. Qed.
Print Assumptions C18_partition_exact.

Theorem C18_exactly_one_id :
  forall (h : str -> N) (n : nat) p, (0 < n)%nat ->
    length (filter (fun id => selected h (N.of_nat n) id p) (ids n)) = 1%nat.
Proof. exact count_one. Qed.
Print Assumptions C18_exactly_one_id.

Theorem C18_reject :
  forall count id,
    (count = Some 0 -> partition_config count id = PRejected) /\
    (forall c i, count = Some c -> id = Some i -> c <= i -> partition_config count id = PRejected) /\
    (forall c, count = Some c -> id = None -> partition_config count id = PRejected) /\
    (forall c i, count = Some c -> id = Some i -> 0 < c -> i < c -> partition_config count id = PPart c i).
Proof. exact config_reject. Qed.
Print Assumptions C18_reject.

Theorem C18_single_file_not_filtered :
  forall h cfg p, select_glob h cfg [p] = [p].
Proof. exact single_file_not_filtered. Qed.
Print Assumptions C18_single_file_not_filtered.

(* the selection is a function of (count, id, path) alone *)
Theorem C18_pure :
  forall h c i files,
    select_glob h (PPart c i) files =
      match files with _ :: _ :: _ => filter (fun p => (h p mod c) =? i) files | _ => files end.
Proof. exact selection_is_pure. Qed.
Print Assumptions C18_pure.
