(* Property C15 — large results are compared through the sqllogictest MD5 digest line.
   Statements only.  [arrangement] is the answer after the active sort, [value_count]
   the number the threshold is compared with. *)
From Coq Require Import Sorting.Permutation.
From SLT Require Import JudgeSpec JudgeProofs Runner HashProofs.
Open Scope N_scope.

(* more than T values (T > 0): the single line "<count> values hashing to <md5 hex>" over
   every value in arranged order, each followed by a newline *)
Theorem C15_hash_line :
  forall f thr q types rows,
    0 < thr -> thr < value_count f q types rows ->
    shape f thr q types rows =
      [[ dec (N.of_nat (length (arrangement f q rows)) * N.of_nat (length (hd [] (arrangement f q rows))))
         ++ lit " values hashing to "
         ++ hex (md5 (utf8 (concat (map (fun v => v ++ [10]) (values_of (arrangement f q rows)))))) ]].
Proof. exact shape_hashed. Qed.
Print Assumptions C15_hash_line.

(* at most T values, or T = 0: compared in full *)
Theorem C15_no_hash :
  forall f thr q types rows,
    thr = 0 \/ value_count f q types rows <= thr ->
    shape f thr q types rows = arrangement f q rows.
Proof. exact shape_not_hashed. Qed.
Print Assumptions C15_no_hash.

(* for rectangular answers the written count and the compared count are the number of values,
   and the hashed values are exactly the answer's values (in arranged order) *)
Theorem C15_count_is_number_of_values :
  forall f q types rows,
    Forall (fun r => length r = length types) rows ->
    let s := arrangement f q rows in
    (s <> [] -> N.of_nat (length s) * N.of_nat (length (hd [] s)) = value_count f q types rows) /\
    N.of_nat (length (values_of s)) = value_count f q types rows /\
    Permutation (values_of s) (values_of rows).
Proof. exact digest_count. Qed.
Print Assumptions C15_count_is_number_of_values.

(* value-wise flattening comes after hashing: the digest line is compared as one line *)
Theorem C15_hash_before_flatten :
  forall f thr q types rows,
    0 < thr -> thr < value_count f q types rows ->
    valuewise (shape f thr q types rows) = shape f thr q types rows.
Proof. exact hashed_then_flattened. Qed.
Print Assumptions C15_hash_before_flatten.

(* the threshold in force changes only at a hash-threshold record, for all later records *)
Theorem C15_threshold_scope :
  forall substitute sc st w r,
    threshold (cfg (state_after substitute sc st w r)) =
      match r with RHashThreshold _ n => n | _ => threshold (cfg st) end.
Proof. exact threshold_scope. Qed.
Print Assumptions C15_threshold_scope.
