(* Property C19 — fail-fast and Ctrl-C stop new work, release everything, and exit non-zero.
   Statements only.  Par.v (observer automaton with a Cancel event), Cli.v (bookkeeping). *)
From SLT Require Import Par ParProofs Cli CliProofs.
Open Scope N_scope.

(* after a cancellation no new test file starts: a later connection belongs to a file already started *)
Theorem C19_no_new_work :
  forall pa pre mid post st db s, prun pa pst0 (pre ++ PCancel :: mid ++ PConnect db s :: post) = Some st ->
    exists s', In (PConnect db s') pre.
Proof. exact no_new_file_after_cancel. Qed.
Print Assumptions C19_no_new_work.

(* everything is released at the end: every connection closed; (with C17) every database dropped *)
Theorem C19_release :
  forall pa tr st, prun pa pst0 tr = Some st -> closed_ st = true ->
    sessions st = [] /\ forall db s, In (PConnect db s) tr -> In (PClose db s) tr.
Proof. exact all_released. Qed.
Print Assumptions C19_release.

(* Ctrl-C at any time, and any failure, make the exit status non-zero *)
Theorem C19_exit_nonzero :
  forall fail_fast ctrl_c rs,
    (exists r, In r rs /\ (exists b, r = RErr b)) \/ ctrl_c = true -> exit_status fail_fast ctrl_c rs <> 0.
Proof. exact exit_nonzero. Qed.
Print Assumptions C19_exit_nonzero.

(* under fail-fast the first failure sets the token for good *)
Theorem C19_fail_fast_cancels :
  forall rs1 b rs2, cancelled (drive true (rs1 ++ RErr b :: rs2)) = true.
Proof. exact fail_fast_cancels. Qed.
Print Assumptions C19_fail_fast_cancels.

(* ---- the driver itself (Driver.v): the logic of run_parallel / run_serial,
   connect_and_run_test_file and the RUNNING_TESTS lock has no deadlock and no livelock.  [mu] is a
   measure no step increases; in every state short of the end some choice other than Ctrl-C
   strictly decreases it; so wherever a run has got to - whatever the scheduler did and whenever
   Ctrl-C or a fail-fast cancellation struck - it can be completed within mu steps. *)
From SLT Require Import Driver DriverInv DriverLive.

Theorem C19_driver_progress :
  forall cf st, (0 < c_jobs cf)%nat -> DInv cf st -> d_phase st <> DEnd ->
    exists c, c <> CCtrlC /\ (mu cf (fst (dstep cf st c)) < mu cf st)%nat.
Proof. exact driver_progress. Qed.
Print Assumptions C19_driver_progress.

Theorem C19_driver_never_doomed :
  forall cf sched st tr, (0 < c_jobs cf)%nat -> drun cf (dst0 cf) sched = (st, tr) ->
    exists more, (length more <= mu cf (dst0 cf))%nat /\ ~ In CCtrlC more /\
                 d_phase (fst (drun cf st more)) = DEnd.
Proof. exact driver_never_doomed. Qed.
Print Assumptions C19_driver_never_doomed.

(* ---- cancellation in the driver model, stated on the model itself: from the moment the token is set (Ctrl-C, a failure
   under fail-fast, a refused connection) no step opens a session or sends a statement, and every file reported afterwards
   gets the result its state at that moment dictates: Skipped if it had not looked at the token yet, Cancelled if it was
   running, its own result if it was already shutting down or finished. *)
From SLT Require Import DriverTrans DriverCancel.

Theorem C19_driver_quiet_after_cancel :
  forall cf st st' tr, reach cf st st' tr -> d_token st = true -> Forall quiet tr.
Proof. exact driver_quiet_after_cancel. Qed.
Print Assumptions C19_driver_quiet_after_cancel.

Theorem C19_driver_fates_after_cancel :
  forall cf st st' tr, reach cf st st' tr -> d_token st = true ->
    exists new, d_reported st' = d_reported st ++ new /\
      forall d r, In (d, r) new -> exists i f t0, nth_error (d_tasks st) i = Some (f, t0) /\ f_db f = d /\ fate t0 r.
Proof. exact driver_fates_after_cancel. Qed.
Print Assumptions C19_driver_fates_after_cancel.

From SLT Require Import DriverProofs.

(* Ctrl-C at any point before the end, or any reported failure, makes the exit status of the driver non-zero *)
Theorem C19_driver_ctrlc_or_failure_exit_nonzero :
  forall cf sched st tr, drun cf (dst0 cf) sched = (st, tr) ->
    d_ctrlc st = true \/ (exists d b, In (d, RErr b) (d_reported st)) -> exit_of st <> 0%N.
Proof. exact driver_ctrlc_or_failure_exit_nonzero. Qed.
Print Assumptions C19_driver_ctrlc_or_failure_exit_nonzero.

(* ---- the serial driver (Serial.v): once the token is set, every file still to come is reported Skipped *)
From SLT Require Import Serial SerialProofs.

Theorem C19_serial_no_new_work :
  forall ff sched st, s_token st = true ->
    exists new, s_reported (srun ff st sched) = s_reported st ++ new /\ Forall (fun r => r = RSkipped) new.
Proof. exact serial_no_new_work. Qed.
Print Assumptions C19_serial_no_new_work.
