(* Property C16 — the CLI's exit status and JUnit report tell the truth about every file.
   Statements only.  Cli.v: the drivers' bookkeeping over the sequence of per-file results in
   the order they are processed (file order in serial mode; ANY completion order in parallel
   mode), the cancellation token, the final exit decision, RunResult::to_junit.
   [consistent]: a file is skipped/cancelled only after the token was set (by Ctrl-C or while
   processing an earlier failure under fail-fast / connection refused). *)
From SLT Require Import Cli CliProofs.
Open Scope N_scope.

Theorem C16_exit :
  forall fail_fast ctrl_c rs,
    consistent fail_fast ctrl_c false rs ->
    (exit_status fail_fast ctrl_c rs = 0 <-> all_ok rs /\ ctrl_c = false).
Proof. exact exit_truth. Qed.
Print Assumptions C16_exit.

Theorem C16_failure_or_interrupt_is_nonzero :
  forall fail_fast ctrl_c rs,
    (exists r, In r rs /\ (exists b, r = RErr b)) \/ ctrl_c = true -> exit_status fail_fast ctrl_c rs <> 0.
Proof. exact exit_nonzero. Qed.
Print Assumptions C16_failure_or_interrupt_is_nonzero.

Theorem C16_junit :
  forall rs,
    let '(tests, failures, disabled) := junit_totals rs in
    tests = length rs /\
    (tests = length (filter (fun r => match junit_status r with JSuccess => true | _ => false end) rs) + failures + disabled)%nat /\
    failures = length (filter (fun r => match r with RErr _ => true | _ => false end) rs) /\
    disabled = length (filter (fun r => match r with RCancelled | RSkipped => true | _ => false end) rs).
Proof. exact junit_totals_add_up. Qed.
Print Assumptions C16_junit.

(* ---- the driver itself (Driver.v): the premise [consistent] of C16_exit is a theorem about
   everything the driver model can produce, its exit decision is [exit_status] of the results it
   reported, and once the stream phase is over every file has been reported exactly once. *)
From SLT Require Import Driver DriverInv DriverProofs.
From Coq Require Import Permutation.

Theorem C16_driver_results_consistent :
  forall cf sched st tr, drun cf (dst0 cf) sched = (st, tr) ->
    consistent (c_ff cf) (d_ctrlc st) false (results st).
Proof. exact driver_results_consistent. Qed.
Print Assumptions C16_driver_results_consistent.

Theorem C16_driver_exit :
  forall cf sched st tr, drun cf (dst0 cf) sched = (st, tr) ->
    (exit_of st = 0 <-> all_ok (results st) /\ d_ctrlc st = false).
Proof. exact driver_exit_truth. Qed.
Print Assumptions C16_driver_exit.

Theorem C16_driver_reports_each_file_once :
  forall cf sched st tr, drun cf (dst0 cf) sched = (st, tr) ->
    match d_phase st with DDrop _ | DClose | DEnd => True | _ => False end ->
    Permutation (map fst (d_reported st)) (dbs_of cf).
Proof. exact driver_reports_each_file_once. Qed.
Print Assumptions C16_driver_reports_each_file_once.

(* the JUnit suite of a finished parallel run has exactly one test case per selected file *)
Theorem C16_driver_junit_one_case_per_file :
  forall cf sched st tr, drun cf (dst0 cf) sched = (st, tr) ->
    match d_phase st with DDrop _ | DClose | DEnd => True | _ => False end ->
    fst (fst (junit_totals (results st))) = length (c_files cf).
Proof. exact driver_junit_one_case_per_file. Qed.
Print Assumptions C16_driver_junit_one_case_per_file.

(* ---- the serial driver (Serial.v: run_serial, the files one after the other; Ctrl-C may arrive before any file or while one runs) *)
From SLT Require Import Serial SerialProofs.

Theorem C16_serial_results_consistent :
  forall ff files sched, let st := srun ff (sst0 files) sched in consistent ff (s_ctrlc st) false (s_reported st).
Proof. exact serial_results_consistent. Qed.
Print Assumptions C16_serial_results_consistent.

Theorem C16_serial_exit :
  forall ff files sched, let st := srun ff (sst0 files) sched in
    (sexit st = 0 <-> all_ok (s_reported st) /\ s_ctrlc st = false).
Proof. exact serial_exit_truth. Qed.
Print Assumptions C16_serial_exit.

Theorem C16_serial_every_file_reported_once :
  forall ff files sched, let st := srun ff (sst0 files) sched in s_todo st = [] -> length (s_reported st) = length files.
Proof. exact serial_every_file_reported_once. Qed.
Print Assumptions C16_serial_every_file_reported_once.

(* without Ctrl-C: each file passes or fails on its own until a failure cancels (fail-fast, or a refused connection); the rest is skipped *)
Theorem C16_serial_plain_results :
  forall ff files, s_reported (srun ff (sst0 files) (plain_schedule files)) = plain_results ff false files.
Proof. exact serial_plain_results. Qed.
Print Assumptions C16_serial_plain_results.
