(* Property C11 — skipif / onlyif decide execution exactly by label membership.  Statements only. *)
From SLT Require Import Runner RunnerProofs RunnerBackground.

(* executed <=> every guard admits the label set (runner labels, plus the engine name
   for statements/queries when it is non-empty; never for system records) *)
Theorem C11_guard :
  forall labels engine_name conds,
    should_skip labels engine_name conds = false <->
    Forall (admits (label_set labels engine_name)) conds.
Proof. exact guard_spec. Qed.
Print Assumptions C11_guard.

(* with several guards the record is skipped as soon as one guard says so *)
Theorem C11_any_guard_skips :
  forall labels engine_name conds,
    should_skip labels engine_name conds = true <->
    exists c, In c conds /\ ~ admits (label_set labels engine_name) c.
Proof. exact guard_any. Qed.
Print Assumptions C11_any_guard_skips.

(* a skipped statement sends nothing, yields no output ... *)
Theorem C11_skipped_statement_is_silent :
  forall substitute sc st w l cs c sql e r sql' ev st1 w1 id,
    may_substitute substitute st true sql = SubOk sql' ->
    get_conn sc st w c = (ev, st1, w1, Some id) ->
    should_skip (labels st1) (engine sc) cs = true ->
    apply_record substitute sc st w (RStatement l cs c sql e r) = (ev, st1, w1, ONothing) /\
    quiet ev /\ calls w1 = calls w /\ sys_calls w1 = sys_calls w.
Proof. exact skipped_statement. Qed.
Print Assumptions C11_skipped_statement_is_silent.

Theorem C11_skipped_query_is_silent :
  forall substitute sc st w l cs c sql e r sql' ev st1 w1 id,
    may_substitute substitute st true sql = SubOk sql' ->
    get_conn sc st w c = (ev, st1, w1, Some id) ->
    should_skip (labels st1) (engine sc) cs = true ->
    apply_record substitute sc st w (RQuery l cs c sql e r) = (ev, st1, w1, ONothing) /\
    quiet ev /\ calls w1 = calls w /\ sys_calls w1 = sys_calls w.
Proof. exact skipped_query. Qed.
Print Assumptions C11_skipped_query_is_silent.

(* a skipped system record runs no command (the engine name does not count for it) *)
Theorem C11_skipped_system_is_silent :
  forall substitute sc st w l cs cmd ex r,
    should_skip (labels st) [] cs = true ->
    apply_record substitute sc st w (RSystem l cs cmd ex r) = ([], st, w, ONothing).
Proof. exact skipped_system. Qed.
Print Assumptions C11_skipped_system_is_silent.

(* ... and cannot fail *)
Theorem C11_skipped_cannot_fail :
  forall re g r, judge re g r ONothing = Pass.
Proof. exact nothing_passes. Qed.
Print Assumptions C11_skipped_cannot_fail.

(* an admitted statement is executed: exactly one request carrying its text *)
Theorem C11_admitted_statement_runs :
  forall substitute sc st w l cs c sql e r sql' ev st1 w1 id,
    may_substitute substitute st true sql = SubOk sql' ->
    get_conn sc st w c = (ev, st1, w1, Some id) ->
    should_skip (labels st1) (engine sc) cs = false ->
    exists d w2, apply_record substitute sc st w (RStatement l cs c sql e r) =
                   (ev ++ [ESql id sql'], st1, w2, apply_stmt d) /\
                 find_conn c (conns st1) = Some id /\ calls w2 = (calls w1 + 1)%N /\ quiet ev.
Proof. exact executed_statement. Qed.
Print Assumptions C11_admitted_statement_runs.

(* an admitted system record runs exactly once: either through the run_command hook (one scripted
   shell answer consumed) or, when its command ends in '&', as ONE background spawn that consumes
   nothing; a skipped one - background or not - does neither (C11_skipped_system_is_silent) *)
Theorem C11_admitted_system_runs_once :
  forall substitute sc st w l cs cmd ex r cmd',
    should_skip (labels st) [] cs = false ->
    may_substitute substitute st false cmd = SubOk cmd' ->
    (is_background cmd' = false /\
     exists a w', apply_record substitute sc st w (RSystem l cs cmd ex r) = ([ECmd cmd'], st, w', apply_system ex a)
                  /\ sys_calls w' = (sys_calls w + 1)%N /\ calls w' = calls w) \/
    (is_background cmd' = true /\
     apply_record substitute sc st w (RSystem l cs cmd ex r) = ([EBackground (background_cmd cmd')], st, w, OSystem None false)).
Proof. exact system_runs_once. Qed.
Print Assumptions C11_admitted_system_runs_once.
