(* Property C07 — override changes only the expectations of records that did not pass.
   Statements only: record level, and (C07_file_frame_and_halt) the file-level driver over the
   flattened record list of a file with its includes.  C05 covers the formatting of unchanged records. *)
From SLT Require Import Parser FormatSpec FormatProofs JudgeSpec Runner Update UpdateSpec UpdateProofs UpdateFile1 UpdateFile
  UpdateText UpdateText7 UpdateTextFrame.

Theorem C07_frame :
  forall re sep strict r o r', update_record re sep strict r o = Some r' -> same_but_expectation r r'.
Proof. exact update_frame. Qed.
Print Assumptions C07_frame.

Theorem C07_only_kind_change :
  forall re sep strict l cs c sql e rt o l' cs' c' sql' e' rt',
    update_record re sep strict (RQuery l cs c sql e rt) o = Some (RStatement l' cs' c' sql' e' rt') ->
    exists n, o = OStatement n None /\ e' = SCount n.
Proof. exact update_kind_change. Qed.
Print Assumptions C07_only_kind_change.

Theorem C07_skipped_unchanged :
  forall re sep strict r, update_record re sep strict r ONothing = None.
Proof. exact update_skipped. Qed.
Print Assumptions C07_skipped_unchanged.

Theorem C07_failed_command_unchanged :
  forall re sep strict l cs cmd ex rt out,
    update_record re sep strict (RSystem l cs cmd ex rt) (OSystem out true) = None.
Proof. exact update_failed_command. Qed.
Print Assumptions C07_failed_command_unchanged.

(* a record whose expectation already matches keeps it as written (row-wise result mode;
   value-wise mode is known finding D5) *)
Theorem C07_pass_keeps :
  forall re sep cfg r a,
    judged r a -> rmode cfg <> Some ValueWise ->
    run_record re cfg r a = Pass ->
    (forall l cs c sql e rt n, r = RQuery l cs c sql e rt -> a <> ADb (DComplete n)) ->
    match update_record re sep (strict_cols cfg) r (apply cfg r a) with
    | None => True
    | Some r' => written_expectation_eq r r'
    end.
Proof. exact update_pass_keeps. Qed.
Print Assumptions C07_pass_keeps.

(* FILE LEVEL: the updater writes one record per input record, of the same kind at the same
   position (include markers, halts and every non-executable record verbatim), an executable record
   unchanged or changed in its expectation only; and from the first `halt` of the flattened list
   on - in whichever file the following records lie - every record is written exactly as it was *)
Theorem C07_file_frame_and_halt :
  forall re sep strict substitute sc main rs st w written ev kn,
    update_loop re sep strict substitute sc false rs [mkItem main []] false st w [] [] []
      = UOk written ev kn ->
    let rs' := updated_records re sep strict substitute sc rs st w in
    length rs' = length rs /\
    Forall2 (fun r r' => rkind_of r' = rkind_of r /\
                         (rkind_of r <> KOther -> r' = r) /\
                         (r' = r \/ same_but_expectation r r')) rs rs' /\
    (forall pre l post,
        rs = pre ++ RHalt l :: post -> Forall (fun r => rkind_of r <> KHalt) pre ->
        exists pre', rs' = pre' ++ RHalt l :: post /\ length pre' = length pre) /\
    (forall j i d,
        (j <= i)%nat -> (j < length rs)%nat -> rkind_of (nth j rs d) = KHalt ->
        nth i rs' d = nth i rs d).
Proof. exact update_after_halt_unchanged. Qed.
Print Assumptions C07_file_frame_and_halt.

(* TEXT LEVEL (single file, from the content before the update to the content after it): the written file parses to a
   script whose records correspond one to one (blank lines and comment merging aside) to the records of the original
   file; each is equal to its original or differs in the expectation only; a record the updater left alone
   (update_record = None: it passed, was skipped, or its command failed) is EQUAL; a rewritten one is the re-read updated
   record; and everything from the first halt on is equal. *)
Theorem C07_text_frame :
  forall (col : N -> option N) (rv : str -> bool) (rm : str -> str -> bool) (sep : str) (strict : bool)
         (substitute : bool -> list (str * str) -> str -> subres) (sc : script),
    col_stable col -> escape_valid rv ->
    forall (file : str) (upper : option loc) (main : str) (s : str) (rs : list record)
           (st : rstate) (w : world) (written : list (str * list N)) (ev : list event) (kn : list N),
      no_trailing_cr s ->
      parse col rv file upper s = POk rs ->
      update_loop rm sep strict substitute sc false rs [mkItem main []] false st w [] [] []
        = UOk written ev kn ->
      Forall2 (out_repr col sep strict) rs (updated_outputs rm sep strict substitute sc rs st w) ->
      dangling_end (updated_records rm sep strict substitute sc rs st w) = false ->
      let outs := updated_outputs rm sep strict substitute sc rs st w in
      exists text R,
        written = [(main, utf8 text)] /\
        parse col rv file upper text = POk R /\
        map fst (meaning_o rs outs) = meaning rs /\
        Forall2 (text_frame_rel rm sep strict) (meaning_o rs outs) (meaning R) /\
        Forall2 (fun a b => b = a \/ same_but_expectation a b) (meaning rs) (meaning R) /\
        (forall Mpre Mpost,
            meaning rs = Mpre ++ RHalt no_loc :: Mpost ->
            Forall (fun a => rkind_of a <> KHalt) Mpre ->
            exists Mpre', meaning R = Mpre' ++ RHalt no_loc :: Mpost /\ length Mpre' = length Mpre).
Proof. exact update_text_frame_source. Qed.
Print Assumptions C07_text_frame.
