(* Property C07 — override changes only the expectations of records that did not pass.
   Statements only (record level; that the file-level driver writes every record of every file,
   in order, through this function is what the correspondence on whole trees checks, together
   with C05 for the formatting of unchanged records). *)
From SLT Require Import JudgeSpec Update UpdateSpec UpdateProofs.

Theorem C07_frame :
  forall re sep strict r o r', update_record re sep strict r o = Some r' -> same_but_expectation r r'.
Proof. exact update_frame. Qed.
Print Assumptions C07_frame.

Theorem C07_only_kind_change :
  forall re sep strict l cs c sql e rt o l' cs' c' sql' e' rt',
    update_record re sep strict (RQuery l cs c sql e rt) o = Some (RStatement l' cs' c' sql' e' rt') ->
    exists n, o = OStatement n None /\ e' = SCount n.
Proof. exact update_kind_change. Qed.
Print Assumptions C07_only_kind_change.

Theorem C07_skipped_unchanged :
  forall re sep strict r, update_record re sep strict r ONothing = None.
Proof. exact update_skipped. Qed.
Print Assumptions C07_skipped_unchanged.

Theorem C07_failed_command_unchanged :
  forall re sep strict l cs cmd ex rt out,
    update_record re sep strict (RSystem l cs cmd ex rt) (OSystem out true) = None.
Proof. exact update_failed_command. Qed.
Print Assumptions C07_failed_command_unchanged.

(* a record whose expectation already matches keeps it as written (row-wise result mode;
   value-wise mode is known finding D5) *)
Theorem C07_pass_keeps :
  forall re sep cfg r a,
    judged r a -> rmode cfg <> Some ValueWise ->
    run_record re cfg r a = Pass ->
    (forall l cs c sql e rt n, r = RQuery l cs c sql e rt -> a <> ADb (DComplete n)) ->
    match update_record re sep (strict_cols cfg) r (apply cfg r a) with
    | None => True
    | Some r' => written_expectation_eq r r'
    end.
Proof. exact update_pass_keeps. Qed.
Print Assumptions C07_pass_keeps.
