(* Judge.v — L2 model of Runner::apply_record (statement/query/system arms, with
   substitution off and an established connection) and of run_async_no_retry's
   verdict match.  Definitions only. *)
From SLT Require Export Shape.
Open Scope N_scope.

Section Judge.
  (* oracle for regex::Regex::is_match *)
  Variable re_match : str -> str -> bool.

  Definition err_match (e : experr) (msg : str) : bool :=
    match e with
    | EEmpty => true
    | EInline re => re_match re msg
    | EMulti t => str_eqb (trim t) (trim msg)
    end.

  (* default_normalizer: s.trim().split_ascii_whitespace().join(" ") *)
  Definition normalize (s : str) : str := join [32] (split_ascii_ws (trim s)).

  (* default_validator *)
  Definition validate (actual : list (list str)) (expected : list str) : bool :=
    list_eqb str_eqb (map (fun row => join [32] (map normalize row)) actual)
                     (map normalize expected).

  (* default / strict column validator *)
  Definition col_validate (strict : bool) (actual expected : str) : bool :=
    if strict then str_eqb actual expected else true.

  Definition query_sort (e : query_expect) : option sortmode :=
    match e with QResults _ s _ _ => s | QError _ => None end.

  (* apply_record, given the answer the connection / shell produced *)
  Definition apply_stmt (a : dbout) : routput :=
    match a with
    | DRows t rows => OQuery t rows None
    | DComplete n => OStatement n None
    | DErr m => OStatement 0 (Some m)
    end.

  Definition apply_query (cfg : config) (e : query_expect) (a : dbout) : routput :=
    match a with
    | DRows t rows => OQuery t (shape (file_sort cfg) (threshold cfg) (query_sort e) t rows) None
    | DComplete n => OStatement n None
    | DErr m => OQuery [] [] (Some m)
    end.

  Definition apply_system (expected_stdout : option str) (a : sysout) : routput :=
    match a with
    | SysExit true out => OSystem (match expected_stdout with Some _ => Some out | None => None end) false
    | SysExit false _ => OSystem None true
    | SysSpawnErr => OSystem None true
    end.

  Definition valuewise (rows : list (list str)) : list (list str) :=
    map (fun v => [v]) (values_of rows).

  (* run_async_no_retry's match, arm by arm and in the same order *)
  Definition judge (cfg : config) (r : record) (o : routput) : verdict :=
    match o with
    | ONothing => Pass
    | _ =>
    match r, o with
    | RStatement _ _ _ _ e _, OQuery _ rows None =>
        match e with
        | SError _ => Fail KOk
        | SCount n => if n =? N.of_nat (length rows) then Pass else Fail KCountMismatch
        | SOk => Pass
        end
    | RQuery _ _ _ _ e _, OStatement _ None =>
        match e with
        | QError _ => Fail KOk
        | QResults _ _ _ (_ :: _) => Fail KResultMismatch
        | QResults _ _ _ [] => Pass
        end
    | RStatement _ _ _ _ e _, OStatement count err =>
        match err, e with
        | None, SError _ => Fail KOk
        | None, SCount n => if n =? count then Pass else Fail KCountMismatch
        | None, SOk => Pass
        | Some m, SError x => if err_match x m then Pass else Fail KErrorMismatch
        | Some _, _ => Fail KFail
        end
    | RQuery _ _ _ _ e _, OQuery types rows err =>
        match err, e with
        | None, QError _ => Fail KOk
        | Some m, QError x => if err_match x m then Pass else Fail KErrorMismatch
        | Some _, QResults _ _ _ _ => Fail KFail
        | None, QResults etypes _ _ results =>
            if negb (col_validate (strict_cols cfg) types etypes) then Fail KColumnsMismatch
            else
              let actual := match rmode cfg with
                            | Some ValueWise => valuewise rows
                            | _ => rows
                            end in
              if validate actual results then Pass else Fail KResultMismatch
        end
    | RSystem _ _ _ expected _, OSystem actual failed =>
        if failed then Fail KSystemFail
        else match expected with
             | None => Pass
             | Some ex =>
                 let act := match actual with Some a => a | None => [] end in
                 if str_eqb ex (trim act) then Pass else Fail KStdoutMismatch
             end
    | _, _ => Unreachable
    end
    end.

  (* one non-retried, non-skipped execution of a record against an answer *)
  Inductive answer := ADb (a : dbout) | ASys (a : sysout).

  Definition apply (cfg : config) (r : record) (a : answer) : routput :=
    match r, a with
    | RStatement _ _ _ _ _ _, ADb d => apply_stmt d
    | RQuery _ _ _ _ e _, ADb d => apply_query cfg e d
    | RSystem _ _ _ ex _, ASys s => apply_system ex s
    | _, _ => ONothing
    end.

  Definition run_record (cfg : config) (r : record) (a : answer) : verdict :=
    judge cfg r (apply cfg r a).
End Judge.
