(* Duration.v — humantime 2.1.0: parse_duration (as applied to a single blank-free
   token) and format_duration.  Durations are total nanoseconds (N). *)
From SLT Require Export Base Text.
Open Scope N_scope.

Definition NS_PER_S : N := 1000000000.

Inductive dres := DOk (nanos : N) | DBad | DPanic.

Definition is_alpha (c : N) : bool := ((97 <=? c) && (c <=? 122)) || ((65 <=? c) && (c <=? 90)).

Definition is_unit (u : str) (x : string) : bool := str_eqb u (lit x).

(* multiplier: Some (seconds?, factor) *)
Definition unit_of (u : str) : option (bool * N) :=
  if is_unit u "nanos" || is_unit u "nsec" || is_unit u "ns" then Some (false, 1)
  else if is_unit u "usec" || is_unit u "us" then Some (false, 1000)
  else if is_unit u "millis" || is_unit u "msec" || is_unit u "ms" then Some (false, 1000000)
  else if is_unit u "seconds" || is_unit u "second" || is_unit u "secs" || is_unit u "sec" || is_unit u "s" then Some (true, 1)
  else if is_unit u "minutes" || is_unit u "minute" || is_unit u "min" || is_unit u "mins" || is_unit u "m" then Some (true, 60)
  else if is_unit u "hours" || is_unit u "hour" || is_unit u "hr" || is_unit u "hrs" || is_unit u "h" then Some (true, 3600)
  else if is_unit u "days" || is_unit u "day" || is_unit u "d" then Some (true, 86400)
  else if is_unit u "weeks" || is_unit u "week" || is_unit u "w" then Some (true, 604800)
  else if is_unit u "months" || is_unit u "month" || is_unit u "M" then Some (true, 2630016)
  else if is_unit u "years" || is_unit u "year" || is_unit u "y" then Some (true, 31557600)
  else None.

(* Parser::parse_unit on current = (sec, nsec); None = error (unknown unit / overflow) *)
Definition parse_unit (n : N) (u : str) (cur : N * N) : option (N * N) :=
  match unit_of u with
  | None => None
  | Some (is_sec, k) =>
      let v := n * k in
      if U64MAX <? v then None else
      let sec := if is_sec then v else 0 in
      let ns := if is_sec then 0 else v in
      let nsec := snd cur + ns in
      if U64MAX <? nsec then None else
      let sec := if NS_PER_S <? nsec then sec + nsec / NS_PER_S else sec in
      if U64MAX <? sec then None else
      let nsec := if NS_PER_S <? nsec then nsec mod NS_PER_S else nsec in
      let sec := fst cur + sec in
      if U64MAX <? sec then None else Some (sec, nsec)
  end.

Inductive dstate := DNum (n : N) | DUnit (n : N) (unit_rev : str).

Fixpoint dur_go (s : str) (st : dstate) (cur : N * N) : option (N * N) :=
  match s with
  | [] => match st with
          | DNum n => parse_unit n [] cur
          | DUnit n u => parse_unit n (frev u) cur
          end
  | c :: r =>
      match st with
      | DNum n =>
          if is_digit c then
            let n' := n * 10 + (c - 48) in
            if U64MAX <? n' then None else dur_go r (DNum n') cur
          else if is_alpha c then dur_go r (DUnit n [c]) cur
          else None
      | DUnit n u =>
          if is_digit c then
            match parse_unit n (frev u) cur with
            | Some cur' => dur_go r (DNum (c - 48)) cur'
            | None => None
            end
          else if is_alpha c then dur_go r (DUnit n (c :: u)) cur
          else None
      end
  end.

(* humantime::parse_duration(token); the final Duration::new(sec, nsec) carries nsec = 10^9
   into the seconds and panics when that overflows *)
Definition parse_duration (s : str) : dres :=
  match s with
  | [] => DBad
  | c :: r =>
      if is_digit c then
        match dur_go r (DNum (c - 48)) (0, 0) with
        | None => DBad
        | Some (sec, nsec) =>
            if (nsec =? NS_PER_S) && (sec =? U64MAX) then DPanic
            else DOk (sec * NS_PER_S + nsec)
        end
      else DBad
  end.

(* humantime::format_duration *)
Definition fmt_item (started : bool) (name : str) (plural : bool) (v : N) : str * bool :=
  if v =? 0 then ([], started)
  else ((if started then [32] else []) ++ dec v ++ name ++ (if plural && (1 <? v) then lit "s" else []), true).

Definition format_duration (d : N) : str :=
  let secs := d / NS_PER_S in
  let nanos := d mod NS_PER_S in
  if (secs =? 0) && (nanos =? 0) then lit "0s" else
  let years := secs / 31557600 in
  let ydays := secs mod 31557600 in
  let months := ydays / 2630016 in
  let mdays := ydays mod 2630016 in
  let days := mdays / 86400 in
  let day_secs := mdays mod 86400 in
  let hours := day_secs / 3600 in
  let minutes := day_secs mod 3600 / 60 in
  let seconds := day_secs mod 60 in
  let millis := nanos / 1000000 in
  let micros := nanos / 1000 mod 1000 in
  let nanosec := nanos mod 1000 in
  let '(a, s1) := fmt_item false (lit "year") true years in
  let '(b, s2) := fmt_item s1 (lit "month") true months in
  let '(c, s3) := fmt_item s2 (lit "day") true days in
  let '(d1, s4) := fmt_item s3 (lit "h") false hours in
  let '(e, s5) := fmt_item s4 (lit "m") false minutes in
  let '(f, s6) := fmt_item s5 (lit "s") false seconds in
  let '(g, s7) := fmt_item s6 (lit "ms") false millis in
  let '(h, s8) := fmt_item s7 (lit "us") false micros in
  let '(i, _) := fmt_item s8 (lit "ns") false nanosec in
  a ++ b ++ c ++ d1 ++ e ++ f ++ g ++ h ++ i.
