(* UpdateText6.v — the text layer of --override, part 6: the per-file premise of
   [update_text_reparses_includes] holds of every record list that parse_file returns (the include
   expansion of Include.v), provided no file of the tree has a physical line ending in CR after
   str::lines ([no_trailing_cr], the premise of C05; known finding D16 otherwise).  Hence the
   composed statement for the library entry point: parse the main file with its includes, update,
   and every file written parses back. *)
From SLT Require Import Base Text Syntax Duration Parser Render TextProofs RenderProofs
     Unparse FsTrim FsProofs FormatSpec FormatProofs Include IncludeSpec IncludeProofs
     Runner Update UpdateSpec UpdateProofs
     UpdateFile1 UpdateFile3 UpdateFile UpdateText UpdateText2 UpdateText3 UpdateText5.
Open Scope N_scope.

Section Split.
  Variable col : N -> option N.
  Variable rv : str -> bool.
  Variable fs : str -> option fentry.
  Variable glob : str -> globres.
  Hypothesis Hcol : col_stable col.
  (* every script of the file system is free of CR-terminated lines *)
  Hypothesis Hfs : forall f s, fs f = Some (FFile s) -> no_trailing_cr s.

  Notation expands := (expands col rv fs glob).
  Notation splice := (splice col rv fs glob).
  Notation expands_all := (expands_all col rv fs glob).
  Notation parsed_ok := (parsed_ok col rv).

  Definition all_ok (dn : list (str * list record)) : Prop := Forall (fun p => parsed_ok (snd p)) dn.

  Lemma all_ok_app a b : all_ok a -> all_ok b -> all_ok (a ++ b).
  Proof. intros Ha Hb. apply Forall_app. split; assumption. Qed.

  Lemma split_plain r rest g pre stack done :
    marker r = None ->
    split_files (r :: rest) ((g, pre) :: stack) done = split_files rest ((g, pre ++ [r]) :: stack) done.
  Proof. intros H. cbn [split_files]. rewrite H. reflexivity. Qed.

  Lemma split_files_mut :
    (forall l out, expands l out ->
       exists frs dn, parsed_ok frs /\ all_ok dn /\
         forall g pre stack done tail,
           split_files (out ++ tail) ((g, pre) :: stack) done =
           split_files tail ((g, pre ++ frs) :: stack) (done ++ dn)) /\
    (forall file rs out, splice file rs out -> Forall (fun r => marker r = None) rs ->
       exists dn, all_ok dn /\
         forall g pre stack done tail,
           split_files (out ++ tail) ((g, pre) :: stack) done =
           split_files tail ((g, pre ++ rs) :: stack) (done ++ dn)) /\
    (forall il fl inners, expands_all il fl inners ->
       exists dn, all_ok dn /\
         forall g pre stack done tail,
           split_files (brackets fl inners ++ tail) ((g, pre) :: stack) done =
           split_files tail ((g, pre) :: stack) (done ++ dn)).
  Proof.
    apply expands_mutind.
    - intros file n upper script rs out Hf Hp _ IH.
      assert (Hok : parsed_ok rs).
      { eapply parse_parsed_ok; [exact Hcol | eapply Hfs; exact Hf | exact Hp]. }
      destruct IH as (dn & Hdn & Hsp).
      { destruct Hok as [Hok _]. eapply Forall_impl; [|exact Hok].
        intros r Hr. eapply rec_ok_no_marker. exact Hr. }
      exists rs, dn. split; [exact Hok|]. split; [exact Hdn | exact Hsp].
    - intros file _. exists []. split; [constructor|].
      intros g pre stack done tail. rewrite !app_nil_r. reflexivity.
    - intros file r rest out Hi _ IH Hall.
      inversion Hall as [|r' rest' Hr Hrest]; subst.
      destruct (IH Hrest) as (dn & Hdn & Hsp). exists dn. split; [exact Hdn|].
      intros g pre stack done tail. cbn [app]. rewrite split_plain by exact Hr.
      rewrite Hsp. rewrite <- app_assoc. reflexivity.
    - intros file il fn files inners rest out _ _ _ IHa _ IHb Hall.
      inversion Hall as [|r' rest' Hr Hrest]; subst.
      destruct IHa as (dn1 & Hdn1 & Hsp1). destruct (IHb Hrest) as (dn2 & Hdn2 & Hsp2).
      exists (dn1 ++ dn2). split; [apply all_ok_app; assumption|].
      intros g pre stack done tail. cbn [app]. rewrite split_plain by reflexivity.
      rewrite <- app_assoc. rewrite Hsp1, Hsp2. rewrite <- !app_assoc. reflexivity.
    - intros il. exists []. split; [constructor|].
      intros g pre stack done tail. rewrite app_nil_r. reflexivity.
    - intros il f fl inner inners _ IHa _ IHb.
      destruct IHa as (frs & dn1 & Hfrs & Hdn1 & Hsp1). destruct IHb as (dn2 & Hdn2 & Hsp2).
      exists (dn1 ++ [(f, frs)] ++ dn2). split.
      { apply all_ok_app; [exact Hdn1|]. apply all_ok_app; [|exact Hdn2].
        constructor; [exact Hfrs | constructor]. }
      intros g pre stack done tail. rewrite brackets_cons.
      cbn [split_files marker]. rewrite Hsp1. cbn [split_files marker app].
      rewrite Hsp2. rewrite <- !app_assoc. reflexivity.
  Qed.

  (* the files of an expansion, as [update_loop] attributes them, all hold parser output *)
  Theorem expands_files_parsed_ok main n out :
    expands (Loc main n None) out ->
    exists files, split_files out [(main, [])] [] = Some files /\ all_ok files.
  Proof.
    intros H. destruct (proj1 split_files_mut _ _ H) as (frs & dn & Hfrs & Hdn & Hsp).
    exists (dn ++ [(main, frs)]). split.
    - rewrite <- (app_nil_r out). rewrite Hsp. reflexivity.
    - apply all_ok_app; [exact Hdn | constructor; [exact Hfrs | constructor]].
  Qed.
End Split.

(* PART 3, from the main file on: parse_file, update, every file written parses back *)
Theorem parse_file_update_text_reparses :
  forall col rv rm sep strict substitute sc fs glob fuel main rs st w written ev kn,
    col_stable col -> escape_valid rv ->
    (forall f s, fs f = Some (FFile s) -> no_trailing_cr s) ->
    parse_file col rv fs glob fuel main = FOkR rs ->
    update_loop rm sep strict substitute sc false rs [mkItem main []] false st w [] [] []
      = UOk written ev kn ->
    Forall2 (out_repr col sep strict) rs (updated_outputs rm sep strict substitute sc rs st w) ->
    exists files_in files_out,
      split_files rs [(main, [])] [] = Some files_in /\
      split_files (updated_records rm sep strict substitute sc rs st w) [(main, [])] [] = Some files_out /\
      Forall2 (fun pin pout => fst pout = fst pin /\ length (snd pout) = length (snd pin)) files_in files_out /\
      Forall2 (fun pout d => fst d = fst pout /\ file_reparses col rv (snd pout) (snd d)) files_out written.
Proof.
  intros col rv rm sep strict substitute sc fs glob fuel main rs st w written ev kn
         Hcol Hesc Hfs Hpf HU Hout.
  unfold parse_file in Hpf. apply expand_sound in Hpf.
  destruct (expands_files_parsed_ok col rv fs glob Hcol Hfs main 0 rs Hpf) as (files_in & Hsin & Hok).
  destruct (update_text_reparses_includes col rv rm sep strict substitute sc Hcol Hesc
              main rs st w written ev kn files_in HU Hsin Hok Hout) as (files_out & H1 & H2 & H3).
  exists files_in, files_out. repeat split; assumption.
Qed.

Print Assumptions parse_file_update_text_reparses.
