(* Syntax.v — the record AST of parser.rs (Record<T>, expectations, conditions,
   connections, retry) and the runner's answer/output types. *)
From SLT Require Export Base Text.
Open Scope N_scope.

Inductive sortmode := NoSort | RowSort | ValueSort.
Inductive resultmode := RowWise | ValueWise.

Inductive experr :=
| EEmpty
| EInline (re : str)
| EMulti (t : str).

Inductive stmt_expect :=
| SOk
| SCount (n : N)
| SError (e : experr).

(* column types are kept as their characters (ColumnType::to_char) *)
Inductive query_expect :=
| QResults (types : str) (sort : option sortmode) (label : option str) (results : list str)
| QError (e : experr).

Inductive cond := OnlyIf (l : str) | SkipIf (l : str).
Inductive conn := CDefault | CNamed (n : str).

(* RetryConfig: attempts (usize), backoff as total nanoseconds *)
Record retry := mkRetry { attempts : N; backoff : N }.

Inductive control :=
| CtlSortMode (m : sortmode)
| CtlResultMode (m : resultmode)
| CtlSubstitution (on : bool).

(* Location: file, line, chain of include sites *)
Inductive loc := Loc (file : str) (line : N) (upper : option loc).
Definition loc_line (l : loc) : N := match l with Loc _ n _ => n end.
Definition loc_file (l : loc) : str := match l with Loc f _ _ => f end.

Inductive record :=
| RInclude (l : loc) (filename : str)
| RStatement (l : loc) (conds : list cond) (c : conn) (sql : str) (e : stmt_expect) (r : option retry)
| RQuery (l : loc) (conds : list cond) (c : conn) (sql : str) (e : query_expect) (r : option retry)
| RSystem (l : loc) (conds : list cond) (cmd : str) (stdout : option str) (r : option retry)
| RSleep (l : loc) (dur : N)
| RSubtest (l : loc) (name : str)
| RHalt (l : loc)
| RControl (c : control)
| RHashThreshold (l : loc) (n : N)
| RCondition (c : cond)
| RConnection (c : conn)
| RComment (ls : list str)
| RNewline
| RBeginInclude (file : str)
| REndInclude (file : str).

(* What the database / shell answers *)
Inductive dbout :=
| DRows (types : str) (rows : list (list str))
| DComplete (n : N)
| DErr (msg : str).

Inductive sysout :=
| SysExit (ok : bool) (stdout : str)
| SysSpawnErr.

(* RecordOutput (errors carried as their Display text; system errors as a flag) *)
Inductive routput :=
| ONothing
| OQuery (types : str) (rows : list (list str)) (err : option str)
| OStatement (count : N) (err : option str)
| OSystem (stdout : option str) (failed : bool).

Inductive kind :=
| KOk | KFail | KErrorMismatch | KCountMismatch | KResultMismatch
| KColumnsMismatch | KSystemFail | KStdoutMismatch.

Inductive verdict := Pass | Fail (k : kind) | Unreachable.

Record config := mkConfig {
  file_sort : option sortmode;
  rmode : option resultmode;
  threshold : N;
  strict_cols : bool
}.

Definition sortmode_eqb (a b : sortmode) : bool :=
  match a, b with
  | NoSort, NoSort | RowSort, RowSort | ValueSort, ValueSort => true
  | _, _ => false
  end.

Definition kind_code (k : kind) : N :=
  match k with
  | KOk => 1 | KFail => 2 | KErrorMismatch => 3 | KCountMismatch => 4
  | KResultMismatch => 5 | KColumnsMismatch => 6 | KSystemFail => 7 | KStdoutMismatch => 8
  end.
