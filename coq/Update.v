(* Update.v — L2 model of update_record_with_output (runner.rs:1577-1804),
   ExpectedError::from_actual_error (parser.rs:438-454), regex::escape, and of the file-level
   driver update_test_file (runner.rs:1413-1557; the CLI copy main.rs:845-1031 has the same
   structure with separator TAB and the default validators). *)
From SLT Require Export Runner Unparse FsTrim Include.
Open Scope N_scope.

(* regex::escape: a backslash before every meta character  \.+*?()|[]{}^$#&-~ *)
Definition is_meta (c : N) : bool :=
  existsb (N.eqb c) [92; 46; 43; 42; 63; 40; 41; 124; 91; 93; 123; 125; 94; 36; 35; 38; 45; 126].
Definition re_escape (s : str) : str := flat_map (fun c => if is_meta c then [92; c] else [c]) s.

(* exactly `retry <n> backoff <d>`: would be read back as a retry clause *)
Definition retry_shaped (ws : list str) : bool :=
  match ws with
  | [a; _; c; _] => str_eqb a (lit "retry") && str_eqb c (lit "backoff")
  | _ => false
  end.

(* does the inline form survive being tokenised and re-joined by single blanks? *)
Definition inline_fits (escaped : str) : bool :=
  str_eqb (join [32] (split_ws escaped)) escaped && negb (retry_shaped (split_ws escaped)).

(* ExpectedError::from_actual_error *)
Definition from_actual_error (reference : option experr) (actual : str) : experr :=
  let trimmed := trim actual in
  let err_is_multiline := match lines trimmed with _ :: _ :: _ => true | _ => false end in
  let escaped := re_escape actual in
  let multiline := match reference with
                   | Some (EMulti _) => true
                   | _ => err_is_multiline || negb (inline_fits escaped)
                   end in
  if multiline then EMulti trimmed
  else match escaped with
       | [] => EEmpty
       | re => EInline re
       end.

(* runner.rs new_expected_error: a record with a retry clause never gets an inline message *)
Definition new_expected_error (reference : option experr) (actual : str) (has_retry : bool) : experr :=
  match from_actual_error reference actual with
  | EInline _ => if has_retry then EMulti (trim actual) else from_actual_error reference actual
  | e => e
  end.

Definition has_retry (r : option retry) : bool := match r with Some _ => true | None => false end.

Section Update.
  Variable re_match : str -> str -> bool.
  Variable sep : str.
  Variable strict : bool.

  Definition validate_u := validate.   (* the validator/normalizer handed to update are the defaults *)

  (* update_record_with_output *)
  Definition update_record (r : record) (o : routput) : option record :=
    match o with
    | ONothing => None
    | _ =>
    match r, o with
    | RStatement l cs c sql e rt, OQuery _ rows None =>
        Some (RStatement l cs c sql
                (match e with SCount _ => SCount (N.of_nat (length rows)) | _ => SOk end) rt)
    | RQuery l cs c sql _ rt, OStatement count None =>
        Some (RStatement l cs c sql (SCount count) rt)
    | RStatement l cs c sql e rt, OStatement count err =>
        match err with
        | None =>
            Some (RStatement l cs c sql (match e with SCount _ => SCount count | _ => SOk end) rt)
        | Some m =>
            match e with
            | SError x =>
                if err_match re_match x m then None
                else Some (RStatement l cs c sql (SError (new_expected_error (Some x) m (has_retry rt))) rt)
            | _ => Some (RStatement l cs c sql (SError (new_expected_error None m (has_retry rt))) rt)
            end
        end
    | RQuery l cs c sql e rt, OQuery types rows err =>
        match err with
        | Some m =>
            match e with
            | QError x =>
                if err_match re_match x m then None
                else Some (RQuery l cs c sql (QError (new_expected_error (Some x) m (has_retry rt))) rt)
            | QResults _ _ _ _ => Some (RQuery l cs c sql (QError (new_expected_error None m (has_retry rt))) rt)
            end
        | None =>
            let results := match e with
                           | QResults _ _ _ ex => if validate rows ex then ex else map (join sep) rows
                           | QError _ => map (join sep) rows
                           end in
            let types' := match e with
                          | QResults et _ _ _ => if col_validate strict types et then et else types
                          | QError _ => types
                          end in
            Some (RQuery l cs c sql
                    (match e with
                     | QResults _ s lb _ => QResults types' s lb results
                     | QError _ => QResults types' None None results
                     end) rt)
        end
    | RSystem l cs cmd _ rt, OSystem out failed =>
        if failed then None else Some (RSystem l cs cmd out rt)
    | _, _ => None
    end
    end.

  (* ---- classes of (record, answer) on which the unchanged updater is known not to converge
     (known findings D5, D12; see DESIGN.md section 5) *)
  Definition known_class (g : config) (r : record) (o : routput) : list N :=
    match r, o with
    | RQuery _ _ _ _ _ _, OQuery _ rows None =>
        (match rmode g with
         | Some ValueWise => if existsb (fun row => negb (Nat.eqb (length row) 1)) rows then [5] else []
         | _ => []
         end) ++
        (if validate rows (map (join sep) rows) then [] else [12])
    | _, _ => []
    end.

  (* ---- file-level driver *)
  Variable substitute : bool -> list (str * str) -> str -> subres.
  Variable sc : script.
  Variable format_only : bool.      (* --format: no execution, records written as parsed *)

  (* one open output file of the stack: original name, text written so far.  The halt flag is
     ONE boolean for the whole update (a local of update_test_file set at the first `halt`
     of the flattened list and never reset): after it every record, in whichever file, is
     written as is and nothing is executed - exactly where run_multi_async stops. *)
  Record item := mkItem { it_file : str; it_text : str }.

  Inductive ures :=
  | UOk (written : list (str * list N)) (ev : list event) (known : list N)   (* (file, final bytes) in rename order *)
  | UPanic (written : list (str * list N)) (ev : list event) (open_files : list str).

  Definition close_item (it : item) : option (str * list N) :=
    match trim_tail (utf8 (it_text it)) with
    | TOk b => Some (it_file it, b)
    | TPanic => None
    end.

  Definition write_rec (it : item) (r : record) : option item :=
    match display r with
    | Some t => Some (mkItem (it_file it) (it_text it ++ t ++ [10]))
    | None => None
    end.

  Fixpoint update_loop (rs : list record) (stack : list item) (halt : bool) (st : rstate) (w : world)
           (done : list (str * list N)) (ev : list event) (kn : list N) : ures :=
    match rs with
    | [] =>
        match stack with
        | it :: _ => match close_item it with
                     | Some d => UOk (done ++ [d]) ev kn
                     | None => UPanic done ev (map it_file stack)
                     end
        | [] => UPanic done ev []
        end
    | r :: rest =>
        match stack with
        | [] => UPanic done ev []
        | it :: below =>
            match r with
            | RBeginInclude f => update_loop rest (mkItem f [] :: stack) halt st w done ev kn
            | REndInclude _ =>
                match close_item it with
                | Some d => update_loop rest below halt st w (done ++ [d]) ev kn
                | None => UPanic done ev (map it_file stack)
                end
            | _ =>
                if halt then
                  match write_rec it r with
                  | Some it' => update_loop rest (it' :: below) true st w done ev kn
                  | None => UPanic done ev (map it_file stack)
                  end
                else match r with
                | RHalt _ =>
                    match write_rec it r with
                    | Some it' => update_loop rest (it' :: below) true st w done ev kn
                    | None => UPanic done ev (map it_file stack)
                    end
                | _ =>
                    if format_only then
                      match write_rec it r with
                      | Some it' => update_loop rest (it' :: below) false st w done ev kn
                      | None => UPanic done ev (map it_file stack)
                      end
                    else
                    let '(e1, st1, w1, o) := apply_record substitute sc st w r in
                    let r' := match update_record r o with Some x => x | None => r end in
                    match write_rec it r' with
                    | Some it' => update_loop rest (it' :: below) false st1 w1 done (ev ++ e1) (kn ++ known_class (cfg st1) r o)
                    | None => UPanic done (ev ++ e1) (map it_file stack)
                    end
                end
            end
        end
    end.

  Definition update_records (main : str) (rs : list record) (st : rstate) : ures :=
    update_loop rs [mkItem main []] false st world0 [] [] [].
End Update.
