(* UpdateTextFrame.v — C07 at the level of the TEXT written by `--override` (single file).

   UpdateText7.update_text_reparses_exact: the bytes written are a text that parses to records
   [R] with [meaning R = map reread (meaning rs')], rs' the records written.  Here the frame:
   how [meaning R] relates to the meaning of the ORIGINAL records [rs].

   [meaning] drops blank-line records and merges adjacent comment blocks, so the position of a
   record in [meaning rs] is not its position in [rs].  To keep track of WHICH output of the
   update belongs to which record of the meaning, [meaning_o rs outs] computes the meaning of
   [rs] with every record paired with the output the update produced for it ([outs] is
   aligned with [rs]: UpdateFile1.updated_outputs; ONothing for a record that was not
   executed, and for comment blocks): [map fst (meaning_o rs outs) = meaning rs].

   THE THEOREM ([update_text_frame]): the records parsed back from the written file
   correspond one to one to the meaning of the original file, and for each pair (a, o) ~ b
     - b = a, or only the expectation differs ([same_but_expectation a b]; locations are
       erased by [meaning] on both sides);
     - if the updater left the record alone ([update_record a o = None]) then b = a;
       otherwise b is the rewritten record as it is read back ([reread x]);
     - from the first `halt` on, everything is equal.
   ADJUSTMENT with respect to the statement asked for: "equal up to [reread]" is proved as plain
   EQUALITY.  [rs] is parser output ([parsed_ok], a premise of update_text_reparses_exact), so an
   expected stdout is already trimmed and [reread a = a] for every record of [meaning rs]
   ([UpdateText.rec_ok_reread]); [reread] only shows on records the updater rewrote. *)
From SLT Require Import Base Text Syntax Duration Parser Render TextProofs RenderProofs
     Unparse FsTrim FsProofs FormatSpec FormatProofs Runner Update UpdateSpec UpdateProofs
     Include IncludeSpec IncludeProofs
     UpdateFile1 UpdateFile2 UpdateFile3 UpdateFile UpdateText UpdateText2 UpdateText3 UpdateText5
     UpdateText6 UpdateText7.
Open Scope N_scope.

(* ------------------------------------------------------------------ 1. the meaning with outputs *)
Fixpoint meaning_o (rs : list record) (os : list routput) : list (record * routput) :=
  match rs with
  | [] => []
  | r :: rest =>
      match r with
      | RNewline => meaning_o rest (tl os)
      | RComment ls =>
          match meaning_o rest (tl os) with
          | (RComment ls', _) :: m => (RComment (map trim_end ls ++ ls'), ONothing) :: m
          | m => (RComment (map trim_end ls), ONothing) :: m
          end
      | _ => (erase r, hd ONothing os) :: meaning_o rest (tl os)
      end
  end.

Lemma meaning_o_fst : forall rs os, map fst (meaning_o rs os) = meaning rs.
Proof.
  induction rs as [|r rest IH]; intros os; [reflexivity|].
  destruct r; cbn [meaning_o meaning map fst]; rewrite <- ?(IH (tl os)); try reflexivity.
  destruct (meaning_o rest (tl os)) as [|[a o] m]; [reflexivity|].
  destruct a; reflexivity.
Qed.

(* which record, which output: an entry of [meaning_o] is a (merged) comment block with no
   output, or the erased record at some position of the list with the output at that position *)
Lemma meaning_o_In : forall rs os a o,
  In (a, o) (meaning_o rs os) ->
  (is_rcomment a = true /\ o = ONothing) \/
  (exists n, (n < length rs)%nat /\ a = erase (nth n rs RNewline) /\ o = nth n os ONothing /\
             is_rcomment (nth n rs RNewline) = false /\ nth n rs RNewline <> RNewline).
Proof.
  induction rs as [|r rest IH]; intros os a o Hin; [destruct Hin|].
  assert (Htail : In (a, o) (meaning_o rest (tl os)) ->
                  (is_rcomment a = true /\ o = ONothing) \/
                  (exists n, (n < length (r :: rest))%nat /\ a = erase (nth n (r :: rest) RNewline) /\
                             o = nth n os ONothing /\
                             is_rcomment (nth n (r :: rest) RNewline) = false /\
                             nth n (r :: rest) RNewline <> RNewline)).
  { intros H. destruct (IH _ _ _ H) as [Hc|(n & Hn & Ha & Ho & Hk)]; [left; exact Hc|right].
    exists (S n). cbn [length nth]. split; [lia|]. split; [exact Ha|]. split; [|exact Hk].
    rewrite Ho. destruct os; [destruct n; reflexivity | reflexivity]. }
  assert (Hhead : is_rcomment r = false -> r <> RNewline ->
                  In (a, o) ((erase r, hd ONothing os) :: meaning_o rest (tl os)) ->
                  (is_rcomment a = true /\ o = ONothing) \/
                  (exists n, (n < length (r :: rest))%nat /\ a = erase (nth n (r :: rest) RNewline) /\
                             o = nth n os ONothing /\
                             is_rcomment (nth n (r :: rest) RNewline) = false /\
                             nth n (r :: rest) RNewline <> RNewline)).
  { intros Hc Hn [H|H]; [|apply Htail; exact H]. inversion H; subst. right.
    exists O. cbn [length nth]. split; [lia|]. split; [reflexivity|].
    split; [destruct os; reflexivity|]. split; assumption. }
  destruct r; cbn [meaning_o] in Hin;
    try (apply Hhead; [reflexivity | discriminate | exact Hin]).
  - (* comment *)
    destruct (meaning_o rest (tl os)) as [|[a0 o0] m] eqn:E.
    + destruct Hin as [H|[]]. inversion H; subst. left. split; reflexivity.
    + assert (Hm : In (a, o) m -> In (a, o) ((a0, o0) :: m)) by (intros X; right; exact X).
      destruct a0; destruct Hin as [H|H];
        try (inversion H; subst; left; split; reflexivity);
        try (apply Htail; exact H);
        try (apply Htail; apply Hm; exact H).
  - (* blank line *) apply Htail. exact Hin.
Qed.

(* ------------------------------------------------------------------ 2. the records written, pointwise *)
Section Frame.
  Variable rm : str -> str -> bool.
  Variable sep : str.
  Variable strict : bool.
  Variable substitute : bool -> list (str * str) -> str -> subres.
  Variable sc : script.

  Notation update_record := (update_record rm sep strict).
  Notation written_rec := (written_rec rm sep strict).
  Notation upd := (upd rm sep strict substitute sc).

  Definition wr (p : record * routput) : record := written_rec (fst p) (snd p).

  Fixpoint zipw (rs : list record) (os : list routput) : list record :=
    match rs with
    | [] => []
    | r :: rest => written_rec r (hd ONothing os) :: zipw rest (tl os)
    end.

  Lemma written_rec_nothing r : written_rec r ONothing = r.
  Proof. unfold UpdateText.written_rec. rewrite update_skipped. reflexivity. Qed.

  (* every record written is [written_rec] of the input record at the same position and of the
     output at the same position *)
  Lemma upd_zipw : forall rs depth halt st w rs' ev kn outs,
    upd rs depth halt st w = Some (rs', ev, kn, outs) ->
    rs' = zipw rs outs /\ length outs = length rs.
  Proof.
    induction rs as [|r rest IH]; intros depth halt st w rs' ev kn outs H.
    - cbn [UpdateFile1.upd] in H. destruct depth; [discriminate|]. inversion H; subst.
      split; reflexivity.
    - destruct depth as [|below]; [discriminate H|]. cbn [UpdateFile1.upd] in H.
      assert (Hcopy : forall d h,
                 cons_res r [] [] ONothing (upd rest d h st w) = Some (rs', ev, kn, outs) ->
                 rs' = zipw (r :: rest) outs /\ length outs = length (r :: rest)).
      { intros d h Hc. apply cons_res_some in Hc as (rs0 & ev0 & kn0 & os & Hx & E).
        inversion E; subst. destruct (IH _ _ _ _ _ _ _ _ Hx) as [-> Hl].
        cbn [zipw hd tl length]. rewrite written_rec_nothing, Hl. split; reflexivity. }
      destruct (rkind_of r) eqn:Ek; try (eapply Hcopy; exact H).
      destruct halt; [eapply Hcopy; exact H|].
      destruct (apply_record substitute sc st w r) as [[[e1 st1] w1] o] eqn:Ea.
      cbv zeta in H.
      apply cons_res_some in H as (rs0 & ev0 & kn0 & os & Hx & E).
      inversion E; subst. destruct (IH _ _ _ _ _ _ _ _ Hx) as [-> Hl].
      cbn [zipw hd tl length]. rewrite Hl. split; reflexivity.
  Qed.

  (* ---- the updater and the record kinds that [meaning] distinguishes *)
  Lemma written_rec_comment ls o : written_rec (RComment ls) o = RComment ls.
  Proof. destruct o; reflexivity. Qed.

  Lemma written_rec_newline o : written_rec RNewline o = RNewline.
  Proof. destruct o; reflexivity. Qed.

  Lemma written_rec_is_rcomment r o : is_rcomment (written_rec r o) = is_rcomment r.
  Proof.
    unfold UpdateText.written_rec. destruct (update_record r o) as [x|] eqn:Hu; [|reflexivity].
    apply update_frame in Hu.
    destruct r, x; cbn [same_but_expectation] in Hu; try contradiction; reflexivity.
  Qed.

  Lemma written_rec_not_newline r o : r <> RNewline -> written_rec r o <> RNewline.
  Proof.
    intros Hr. unfold UpdateText.written_rec. destruct (update_record r o) as [x|] eqn:Hu; [|exact Hr].
    apply update_frame in Hu.
    destruct r, x; cbn [same_but_expectation] in Hu; try contradiction; discriminate.
  Qed.

  (* erasing the location commutes with the updater *)
  Lemma written_rec_erase r o :
    is_rcomment r = false -> erase (written_rec r o) = written_rec (erase r) o.
  Proof.
    intros Hc. unfold UpdateText.written_rec.
    destruct r; try discriminate Hc; try (destruct o; reflexivity);
      destruct o as [|t rows [m|]|cnt [m|]|out f]; cbn [erase Update.update_record];
      try reflexivity;
      try (destruct e; try reflexivity;
           match goal with |- context [err_match ?a ?b ?c] => destruct (err_match a b c) end;
           reflexivity);
      try (destruct f; reflexivity).
  Qed.

  Lemma update_record_erase_none r o :
    is_rcomment r = false -> (update_record (erase r) o = None <-> update_record r o = None).
  Proof.
    intros Hc.
    destruct r; try discriminate Hc; try (destruct o; split; reflexivity);
      destruct o as [|t rows [m|]|cnt [m|]|out f]; cbn [erase Update.update_record];
      try (split; intros H; first [exact H | discriminate H]);
      try (destruct e; try (split; intros H; first [exact H | discriminate H]);
           match goal with |- context [err_match ?a ?b ?c] => destruct (err_match a b c) end;
           split; intros H; first [exact H | discriminate H]);
      try (destruct f; split; intros H; first [exact H | discriminate H]).
  Qed.

  (* ---- [meaning] commutes with the pointwise rewrite *)
  Lemma meaning_zipw : forall rs os, meaning (zipw rs os) = map wr (meaning_o rs os).
  Proof.
    induction rs as [|r rest IH]; intros os; [reflexivity|].
    cbn [zipw].
    assert (Hplain : is_rcomment r = false -> r <> RNewline ->
                     meaning (written_rec r (hd ONothing os) :: zipw rest (tl os)) =
                     written_rec (erase r) (hd ONothing os) :: map wr (meaning_o rest (tl os))).
    { intros Hc Hn.
      rewrite meaning_cons_plain by (rewrite written_rec_is_rcomment; exact Hc).
      rewrite IH, <- written_rec_erase by exact Hc.
      pose proof (written_rec_not_newline r (hd ONothing os) Hn) as Hn'.
      destruct (written_rec r (hd ONothing os)); try contradiction; reflexivity. }
    destruct r; cbn [meaning_o map];
      try (rewrite Hplain by (reflexivity || discriminate); reflexivity).
    - (* comment *)
      rewrite written_rec_comment. cbn [meaning]. rewrite IH.
      destruct (meaning_o rest (tl os)) as [|[a o] m]; [reflexivity|].
      destruct (is_rcomment a) eqn:Ea.
      + destruct a; try discriminate Ea. cbn [map]. unfold wr. cbn [fst snd].
        rewrite !written_rec_comment. reflexivity.
      + pose proof (written_rec_is_rcomment a o) as Hk. rewrite Ea in Hk.
        transitivity (RComment (map trim_end ls) :: written_rec a o :: map wr m).
        * cbn [map]. unfold wr at 1. cbn [fst snd].
          destruct (written_rec a o); try discriminate Hk; reflexivity.
        * destruct a; try discriminate Ea; reflexivity.
    - (* blank line *)
      rewrite written_rec_newline. cbn [meaning]. apply IH.
  Qed.

  (* ---- the first halt *)
  Definition nohalt (r : record) : Prop := rkind_of r <> KHalt.

  Lemma meaning_app_plain : forall A r B,
    is_rcomment r = false -> r <> RNewline ->
    meaning (A ++ r :: B) = meaning A ++ erase r :: meaning B.
  Proof.
    induction A as [|a A IH]; intros r B Hc Hn.
    - cbn [app]. destruct r; try discriminate Hc; try contradiction; reflexivity.
    - destruct a; cbn [app meaning]; rewrite ?(IH r B Hc Hn); try reflexivity.
      destruct (meaning A) as [|m0 M]; cbn [app].
      + destruct r; try discriminate Hc; try contradiction; reflexivity.
      + destruct m0; reflexivity.
  Qed.

  Lemma meaning_nohalt : forall rs, Forall nohalt rs -> Forall nohalt (meaning rs).
  Proof.
    induction rs as [|r rs IH]; intros H; [constructor|].
    inversion H as [|r0 l0 Hr Hrest]; subst. specialize (IH Hrest).
    destruct r; cbn [meaning]; try (constructor; [exact Hr | exact IH]); try exact IH;
      try (constructor; [unfold nohalt; cbn; discriminate | exact IH]).
    destruct (meaning rs) as [|m0 M]; [constructor; [unfold nohalt; cbn; discriminate|constructor]|].
    inversion IH as [|x y Hm0 HM]; subst.
    destruct m0; constructor; try (unfold nohalt; cbn; discriminate); try assumption;
      constructor; assumption.
  Qed.

  Lemma halt_or_not : forall rs : list record,
    Forall nohalt rs \/ exists pre l post, rs = pre ++ RHalt l :: post /\ Forall nohalt pre.
  Proof.
    induction rs as [|r rs IH]; [left; constructor|].
    destruct (rkind_of r) eqn:K.
    3: { destruct r; try discriminate K. right. exists [], l, rs. split; [reflexivity | constructor]. }
    all: destruct IH as [IH|(pre & l & post & -> & Hp)];
      [ left; constructor; [unfold nohalt; rewrite K; discriminate | exact IH]
      | right; exists (r :: pre), l, post; split; [reflexivity|];
        constructor; [unfold nohalt; rewrite K; discriminate | exact Hp] ].
  Qed.

  Lemma first_split_unique {A} (P : A -> Prop) : forall (a1 a2 : list A) x1 x2 b1 b2,
    a1 ++ x1 :: b1 = a2 ++ x2 :: b2 ->
    Forall P a1 -> Forall P a2 -> ~ P x1 -> ~ P x2 ->
    a1 = a2 /\ x1 = x2 /\ b1 = b2.
  Proof.
    induction a1 as [|c a1 IH]; intros a2 x1 x2 b1 b2 E H1 H2 N1 N2.
    - destruct a2 as [|d a2]; cbn [app] in E.
      + inversion E; subst. repeat split; reflexivity.
      + inversion E; subst. inversion H2; subst. contradiction.
    - destruct a2 as [|d a2]; cbn [app] in E.
      + inversion E; subst. inversion H1; subst. contradiction.
      + inversion E; subst. inversion H1; subst. inversion H2; subst.
        destruct (IH a2 x1 x2 b1 b2 H3 H5 H7 N1 N2) as (-> & -> & ->). repeat split; reflexivity.
  Qed.

  Lemma map_eq_Forall2 {A B} (f : A -> B) : forall l m, m = map f l -> Forall2 (fun a b => b = f a) l m.
  Proof. intros l m ->. induction l; constructor; [reflexivity | assumption]. Qed.

  Lemma Forall2_map_fst {A B C} (P : A -> C -> Prop) : forall (l : list (A * B)) m,
    Forall2 (fun p c => P (fst p) c) l m -> Forall2 P (map fst l) m.
  Proof. intros l m H. induction H; cbn [map]; constructor; assumption. Qed.

  Lemma Forall2_imp {A B} (P Q : A -> B -> Prop) l m :
    (forall a b, P a b -> Q a b) -> Forall2 P l m -> Forall2 Q l m.
  Proof. intros HPQ H. induction H; constructor; [apply HPQ; assumption | assumption]. Qed.

  Lemma Forall2_length {A B} (P : A -> B -> Prop) l m : Forall2 P l m -> length l = length m.
  Proof. intros H. induction H; cbn [length]; [reflexivity | now f_equal]. Qed.

  (* ---- records of the meaning of parser output are fixed points of [reread] *)
  Lemma meaning_o_reread col rv : forall rs os,
    Forall (rec_ok col rv) rs -> Forall (fun p => reread (fst p) = fst p) (meaning_o rs os).
  Proof.
    induction rs as [|r rest IH]; intros os H; [constructor|].
    inversion H as [|r0 l0 Hr Hrest]; subst. specialize (IH (tl os) Hrest).
    pose proof (rec_ok_reread col rv r Hr) as Hid.
    destruct r; cbn [meaning_o]; try (constructor; [cbn [fst]; try reflexivity | exact IH]); try exact IH.
    - (* system *) cbn [reread] in Hid. injection Hid as Ht. cbn [fst erase reread]. rewrite Ht. reflexivity.
    - (* comment *)
      destruct (meaning_o rest (tl os)) as [|[a o] m]; [constructor; [reflexivity|constructor]|].
      inversion IH as [|x y Ha Hm]; subst.
      destruct a; constructor; try reflexivity; try assumption; constructor; assumption.
  Qed.
End Frame.

(* ------------------------------------------------------------------ 3. THE THEOREM *)
(* the relation between an entry (a, o) of the meaning of the original file with outputs, and the
   record b at the same position of the meaning of the file parsed back *)
Definition text_frame_rel (rm : str -> str -> bool) (sep : str) (strict : bool)
           (p : record * routput) (b : record) : Prop :=
  (* equal, or only the expectation changed *)
  (b = fst p \/ same_but_expectation (fst p) b) /\
  (* left alone by the updater: equal *)
  (update_record rm sep strict (fst p) (snd p) = None -> b = fst p) /\
  (* rewritten: the rewritten record as it is read back *)
  (forall x, update_record rm sep strict (fst p) (snd p) = Some x -> b = reread x).

Theorem update_text_frame :
  forall (col : N -> option N) (rv : str -> bool) (rm : str -> str -> bool) (sep : str) (strict : bool)
         (substitute : bool -> list (str * str) -> str -> subres) (sc : script),
    col_stable col -> escape_valid rv ->
    forall (file : str) (upper : option loc) (main : str) (rs : list record) (st : rstate) (w : world)
           (written : list (str * list N)) (ev : list event) (kn : list N),
      parsed_ok col rv rs ->
      update_loop rm sep strict substitute sc false rs [mkItem main []] false st w [] [] []
        = UOk written ev kn ->
      Forall2 (out_repr col sep strict) rs (updated_outputs rm sep strict substitute sc rs st w) ->
      dangling_end (updated_records rm sep strict substitute sc rs st w) = false ->
      let outs := updated_outputs rm sep strict substitute sc rs st w in
      exists text R,
        written = [(main, utf8 text)] /\
        parse col rv file upper text = POk R /\
        (* the original meaning, every record with its output *)
        map fst (meaning_o rs outs) = meaning rs /\
        (* (1) + (3): one to one; equal or changed in the expectation only; equal where the
           updater left the record alone *)
        Forall2 (text_frame_rel rm sep strict) (meaning_o rs outs) (meaning R) /\
        Forall2 (fun a b => b = a \/ same_but_expectation a b) (meaning rs) (meaning R) /\
        (* (2) from the first `halt` on, equal - split of the original list *)
        (forall pre l post,
            rs = pre ++ RHalt l :: post -> Forall (fun r => rkind_of r <> KHalt) pre ->
            exists Mpre',
              meaning rs = meaning pre ++ RHalt no_loc :: meaning post /\
              meaning R = Mpre' ++ RHalt no_loc :: meaning post /\
              length Mpre' = length (meaning pre)) /\
        (* (2) the same, split of the meaning *)
        (forall Mpre Mpost,
            meaning rs = Mpre ++ RHalt no_loc :: Mpost ->
            Forall (fun a => rkind_of a <> KHalt) Mpre ->
            exists Mpre', meaning R = Mpre' ++ RHalt no_loc :: Mpost /\ length Mpre' = length Mpre).
Proof.
  intros col rv rm sep strict substitute sc Hcol Hesc file upper main rs st w written ev kn
         Hp HU Hout Hend outs.
  destruct (update_text_reparses_exact col rv rm sep strict substitute sc Hcol Hesc
              file upper main rs st w written ev kn Hp HU Hout Hend)
    as (text & R & n & Hw & Hparse & _ & Hmean).
  pose proof HU as HU'. apply update_loop_upd in HU'.
  destruct HU' as (rs1 & ev1 & kn1 & outs1 & U & _ & _). cbn [length] in U.
  assert (Ers : updated_records rm sep strict substitute sc rs st w = rs1)
    by (unfold updated_records; rewrite U; reflexivity).
  assert (Eos : outs = outs1)
    by (unfold outs, updated_outputs; rewrite U; reflexivity).
  rewrite Ers in Hmean. rewrite Eos. clear Eos outs.
  destruct (upd_zipw rm sep strict substitute sc _ _ _ _ _ _ _ _ _ U) as [Ez _].
  (* meaning R, entry by entry *)
  assert (HM : meaning R = map (fun p => reread (wr rm sep strict p)) (meaning_o rs outs1)).
  { rewrite Hmean, Ez, meaning_zipw, map_map. reflexivity. }
  pose proof (meaning_o_reread col rv rs outs1 (proj1 Hp)) as Hfix.
  assert (HF : Forall2 (text_frame_rel rm sep strict) (meaning_o rs outs1) (meaning R)).
  { rewrite HM. clear - Hfix. induction Hfix as [|[a o] l Ha _ IH]; cbn [map]; constructor; [|exact IH].
    cbn [fst] in Ha. unfold text_frame_rel, wr, UpdateText.written_rec. cbn [fst snd].
    destruct (update_record rm sep strict a o) as [x|] eqn:Hu.
    - split; [right; apply sbe_reread; eapply update_frame; exact Hu|].
      split; [intros X; discriminate X | intros y Hy; inversion Hy; reflexivity].
    - split; [left; exact Ha|]. split; [intros _; exact Ha | intros y Hy; discriminate Hy]. }
  assert (HF2 : Forall2 (fun a b => b = a \/ same_but_expectation a b) (meaning rs) (meaning R)).
  { rewrite <- (meaning_o_fst rs outs1). apply Forall2_map_fst.
    eapply Forall2_imp; [|exact HF]. intros p b (H1 & _). exact H1. }
  (* the first halt, on the original list *)
  assert (HD1 : forall pre l post,
             rs = pre ++ RHalt l :: post -> Forall (fun r => rkind_of r <> KHalt) pre ->
             exists Mpre',
               meaning rs = meaning pre ++ RHalt no_loc :: meaning post /\
               meaning R = Mpre' ++ RHalt no_loc :: meaning post /\
               length Mpre' = length (meaning pre)).
  { intros pre l post E Hpre. subst rs.
    destruct (upd_after_halt rm sep strict substitute sc pre l post _ _ _ _ _ _ _ Hpre U)
      as (pre' & E' & _).
    assert (Hpost : map reread post = post).
    { destruct Hp as [Hok _]. apply Forall_app in Hok as [_ Hok].
      inversion Hok as [|x y _ Hpo]; subst. clear - Hpo.
      induction Hpo as [|r l Hr _ IH]; [reflexivity|].
      cbn [map]. rewrite (rec_ok_reread col rv r Hr), IH. reflexivity. }
    assert (E1 : meaning (pre ++ RHalt l :: post) = meaning pre ++ RHalt no_loc :: meaning post)
      by (apply meaning_app_plain; [reflexivity | discriminate]).
    assert (E2 : meaning R = meaning (map reread pre') ++ RHalt no_loc :: meaning post).
    { rewrite Hmean, <- meaning_map_reread, E', map_app. cbn [map reread]. rewrite Hpost.
      apply meaning_app_plain; [reflexivity | discriminate]. }
    exists (meaning (map reread pre')). split; [exact E1|]. split; [exact E2|].
    apply Forall2_length in HF2. rewrite E1, E2, !app_length in HF2. cbn [length] in HF2. lia. }
  exists text, R. split; [exact Hw|]. split; [exact Hparse|].
  split; [apply meaning_o_fst|]. split; [exact HF|]. split; [exact HF2|]. split; [exact HD1|].
  (* the first halt, on the meaning *)
  intros Mpre Mpost EM HMpre.
  destruct (halt_or_not rs) as [Hno|(pre & l & post & E & Hpre)].
  - exfalso. apply meaning_nohalt in Hno. rewrite EM in Hno.
    apply Forall_app in Hno as [_ Hno]. inversion Hno as [|x y Hx _]; subst. apply Hx. reflexivity.
  - destruct (HD1 pre l post E Hpre) as (Mpre' & E1 & E2 & L).
    rewrite EM in E1.
    destruct (first_split_unique nohalt _ _ _ _ _ _ E1 HMpre (meaning_nohalt _ Hpre))
      as (-> & _ & ->); [intros X; apply X; reflexivity | intros X; apply X; reflexivity|].
    exists Mpre'. split; [exact E2 | exact L].
Qed.
Print Assumptions update_text_frame.

(* the same from the CONTENT of the file before the update *)
Theorem update_text_frame_source :
  forall (col : N -> option N) (rv : str -> bool) (rm : str -> str -> bool) (sep : str) (strict : bool)
         (substitute : bool -> list (str * str) -> str -> subres) (sc : script),
    col_stable col -> escape_valid rv ->
    forall (file : str) (upper : option loc) (main : str) (s : str) (rs : list record)
           (st : rstate) (w : world) (written : list (str * list N)) (ev : list event) (kn : list N),
      no_trailing_cr s ->
      parse col rv file upper s = POk rs ->
      update_loop rm sep strict substitute sc false rs [mkItem main []] false st w [] [] []
        = UOk written ev kn ->
      Forall2 (out_repr col sep strict) rs (updated_outputs rm sep strict substitute sc rs st w) ->
      dangling_end (updated_records rm sep strict substitute sc rs st w) = false ->
      let outs := updated_outputs rm sep strict substitute sc rs st w in
      exists text R,
        written = [(main, utf8 text)] /\
        parse col rv file upper text = POk R /\
        map fst (meaning_o rs outs) = meaning rs /\
        Forall2 (text_frame_rel rm sep strict) (meaning_o rs outs) (meaning R) /\
        Forall2 (fun a b => b = a \/ same_but_expectation a b) (meaning rs) (meaning R) /\
        (forall Mpre Mpost,
            meaning rs = Mpre ++ RHalt no_loc :: Mpost ->
            Forall (fun a => rkind_of a <> KHalt) Mpre ->
            exists Mpre', meaning R = Mpre' ++ RHalt no_loc :: Mpost /\ length Mpre' = length Mpre).
Proof.
  intros col rv rm sep strict substitute sc Hcol Hesc file upper main s rs st w written ev kn
         Hcr Hparse HU Hout Hend outs.
  pose proof (parse_parsed_ok col rv file upper Hcol s rs Hcr Hparse) as Hp.
  destruct (update_text_frame col rv rm sep strict substitute sc Hcol Hesc file upper main rs st w
              written ev kn Hp HU Hout Hend) as (text & R & H1 & H2 & H3 & H4 & H5 & _ & H7).
  exists text, R. repeat split; assumption.
Qed.
Print Assumptions update_text_frame_source.
