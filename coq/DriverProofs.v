(* DriverProofs.v — what the driver model (Driver.v) guarantees about results, the exit status
   and termination, for every configuration and every list of scheduler choices:
     - a file is reported Cancelled / Skipped only after the token was set  (Cli.consistent,
       the premise of C16_exit, is a theorem here, no longer an assumption);
     - the exit decision of the code is Cli.exit_status of the reported results;
     - once the stream phase is over every file has been reported exactly once;
     - no reachable state short of the end is stuck (some choice changes the state), and every
       state-changing step other than Ctrl-C decreases a measure: every run ends. *)
From SLT Require Import Base Par Cli ParProofs CliProofs Driver DriverTrans DriverInv.
From Coq Require Import Permutation.
Open Scope N_scope.

(* ------------------------------------------------------------------------- *)
(* results                                                                     *)

Definition res_of (t : tstate) : option fresult :=
  match t with TClosing r _ _ | TDone r _ => Some r | _ => None end.
Definition cancelish (r : fresult) : bool := match r with RCancelled | RSkipped => true | _ => false end.

Definition results (st : dst) : list fresult := map snd (d_reported st).

Record RInv (cf : cfg) (st : dst) : Prop := mkRInv {
  q_tok : d_token st = d_ctrlc st || cancelled (drive (c_ff cf) (results st));
  q_failed : length (d_failed_db st) = failed (drive (c_ff cf) (results st));
  q_res : forall i f t r, nth_error (d_tasks st) i = Some (f, t) -> res_of t = Some r -> cancelish r = true -> d_token st = true;
  q_wait : forall i f, nth_error (d_tasks st) i = Some (f, TWaitSkip) -> d_token st = true;
  q_refused : d_refused st = true -> d_token st = true;
  q_cons : consistent (c_ff cf) (d_ctrlc st) false (results st)
}.

Lemma drive_snoc ff rs r : drive ff (rs ++ [r]) = on_result ff (drive ff rs) r.
Proof. unfold drive. rewrite fold_left_app. reflexivity. Qed.

Lemma consistent_mono ff rs : forall tok cc, consistent ff cc tok rs -> consistent ff true tok rs.
Proof.
  induction rs as [|r rs IH]; intros tok cc; cbn [consistent]; [auto|].
  intros [H1 H2]. split; [destruct r; auto|eapply IH; exact H2].
Qed.

Fixpoint tokf (ff tok : bool) (rs : list fresult) : bool :=
  match rs with
  | [] => tok
  | r :: rest => tokf ff (match r with RErr refused => tok || ff || refused | _ => tok end) rest
  end.

Lemma cancelled_fold ff rs : forall s, cancelled (fold_left (on_result ff) rs s) = tokf ff (cancelled s) rs.
Proof.
  induction rs as [|r rs IH]; intros s; cbn [fold_left tokf]; [reflexivity|].
  rewrite IH. destruct r; reflexivity.
Qed.

Lemma consistent_snoc ff cc rs r : forall tok,
  consistent ff cc tok rs ->
  (cancelish r = true -> tokf ff tok rs = true \/ cc = true) ->
  consistent ff cc tok (rs ++ [r]).
Proof.
  induction rs as [|x rs IH]; intros tok; cbn [app consistent tokf].
  - intros _ H. split; [|exact I]. destruct r; cbn in *; auto.
  - intros [H1 H2] H. split; [exact H1|]. apply IH; assumption.
Qed.

Lemma RInv_init cf : RInv cf (dst0 cf).
Proof.
  constructor; cbn; auto.
  - intros i f t r Hi. apply nth_error_In in Hi. apply in_map_iff in Hi. destruct Hi as [g [E _]].
    injection E as _ <-. discriminate.
  - intros i f Hi. apply nth_error_In in Hi. apply in_map_iff in Hi. destruct Hi as [g [E _]]. discriminate E.
Qed.

Lemma ttrans_res f tok nr next t t' evs next' r :
  ttrans f tok nr next t t' evs next' -> res_of t' = Some r -> cancelish r = true ->
  (res_of t = Some r) \/ tok = true \/ t = TWaitSkip.
Proof.
  intros T; destruct T; cbn [res_of]; intros E C; try discriminate E; auto;
    try (injection E as <-; discriminate C).
Qed.

Lemma RInv_trans cf st st' evs : RInv cf st -> trans cf st st' evs -> RInv cf st'.
Proof.
  intros [Q1 Q2 Q3 Q4 Q5 Q6] T. destruct T; try (constructor; cbn; assumption).
  - (* spawn *) constructor; cbn [set_tasks d_token d_ctrlc d_failed_db d_refused d_reported d_tasks results] in *; auto.
    + intros j g u r Hj. destruct (nth_error_upd _ _ _ _ _ _ H1 Hj) as [[_ E]|[_ E]]; [injection E as _ ->; discriminate|eapply Q3; exact E].
    + intros j g Hj. destruct (nth_error_upd _ _ _ _ _ _ H1 Hj) as [[_ E]|[_ E]]; [discriminate E|eapply Q4; exact E].
  - (* task *) constructor; cbn [set_tasks d_token d_ctrlc d_failed_db d_refused d_reported d_tasks results] in *; auto.
    + intros j g u r Hj Hr Hc. destruct (nth_error_upd _ _ _ _ _ _ H0 Hj) as [[_ E]|[_ E]]; [|eapply Q3; eauto].
      injection E as -> ->. destruct (ttrans_res _ _ _ _ _ _ _ _ _ H1 Hr Hc) as [A|[A|A]].
      * eapply Q3; eauto.
      * exact A.
      * subst t. eapply Q4; exact H0.
    + intros j g Hj. destruct (nth_error_upd _ _ _ _ _ _ H0 Hj) as [[_ E]|[_ E]]; [|eapply Q4; exact E].
      injection E as -> Et. destruct H1; try discriminate Et; auto. subst t. eapply Q4; exact H0.
  - (* report *)
    assert (Hr : cancelish r = true -> d_token st = true) by (intros C; eapply Q3; [exact H0|reflexivity|exact C]).
    assert (Q3' : forall tok', (d_token st = true -> tok' = true) ->
               forall j g u r', nth_error (upd i (f, TReported had) (d_tasks st)) j = Some (g, u) -> res_of u = Some r' -> cancelish r' = true -> tok' = true).
    { intros tok' Hm j g u r' Hj Hu Hc. destruct (nth_error_upd _ _ _ _ _ _ H0 Hj) as [[_ E]|[_ E]]; [injection E as _ ->; discriminate Hu|].
      apply Hm. eapply Q3; eauto. }
    assert (Q4' : forall tok', (d_token st = true -> tok' = true) ->
               forall j g, nth_error (upd i (f, TReported had) (d_tasks st)) j = Some (g, TWaitSkip) -> tok' = true).
    { intros tok' Hm j g Hj. destruct (nth_error_upd _ _ _ _ _ _ H0 Hj) as [[_ E]|[_ E]]; [discriminate E|].
      apply Hm. eapply Q4; eauto. }
    assert (Q6' : consistent (c_ff cf) (d_ctrlc st) false (results st ++ [r])).
    { apply consistent_snoc; [exact Q6|]. intros C. specialize (Hr C). rewrite Q1 in Hr.
      unfold drive in Hr. rewrite cancelled_fold in Hr. cbn [cancelled] in Hr.
      destruct (d_ctrlc st); [right; reflexivity|left; exact Hr]. }
    unfold report_result. destruct r as [|rf| |]; cbn [fst snd]; constructor; unfold results;
      cbn [d_token d_ctrlc d_failed_db d_refused d_reported d_tasks];
      rewrite ?map_app; cbn [map snd]; fold (results st); rewrite ?drive_snoc; cbn [on_result cancelled failed length]; auto.
    + apply Q3'; auto.
    + apply Q4'; auto.
    + rewrite Q1 in *. destruct (d_ctrlc st), (cancelled (drive (c_ff cf) (results st))), (c_ff cf), (d_refused st), rf; try reflexivity;
        specialize (Q5 eq_refl); discriminate Q5.
    + apply Q3'. intros ->. reflexivity.
    + apply Q4'. intros ->. reflexivity.
    + intros E. apply orb_true_iff in E. destruct E as [E|E].
      * rewrite (Q5 E). reflexivity.
      * rewrite E. rewrite !orb_true_r. reflexivity.
  - (* ctrl-c *) constructor; cbn [d_token d_ctrlc d_failed_db d_refused d_reported d_tasks results] in *; auto.
    eapply consistent_mono; exact Q6.
Qed.

Lemma RInv_reach cf st st' tr : RInv cf st -> reach cf st st' tr -> RInv cf st'.
Proof. intros I R. induction R; [exact I|]. apply IHR. eapply RInv_trans; eauto. Qed.

(* the premise of C16_exit holds of everything the driver can produce *)
Theorem driver_results_consistent cf sched st tr :
  drun cf (dst0 cf) sched = (st, tr) -> consistent (c_ff cf) (d_ctrlc st) false (results st).
Proof. intros H. apply drun_reach in H. exact (q_cons _ _ (RInv_reach _ _ _ _ (RInv_init cf) H)). Qed.

(* the decision taken by the code is the one Cli.v studies *)
Theorem driver_exit_is_cli_exit cf sched st tr :
  drun cf (dst0 cf) sched = (st, tr) -> exit_of st = exit_status (c_ff cf) (d_ctrlc st) (results st).
Proof.
  intros H. apply drun_reach in H. destruct (RInv_reach _ _ _ _ (RInv_init cf) H) as [Q1 Q2 _ _ _ _].
  unfold exit_of, exit_status. destruct (d_failed_db st) as [|d l]; cbn [length] in Q2; rewrite <- Q2.
  - rewrite Q1. rewrite orb_comm. reflexivity.
  - reflexivity.
Qed.

Corollary driver_exit_truth cf sched st tr :
  drun cf (dst0 cf) sched = (st, tr) ->
  (exit_of st = 0 <-> all_ok (results st) /\ d_ctrlc st = false).
Proof.
  intros H. rewrite (driver_exit_is_cli_exit _ _ _ _ H).
  apply exit_truth. eapply driver_results_consistent; exact H.
Qed.

(* ------------------------------------------------------------------------- *)
(* every file is reported exactly once                                         *)

Definition rep_flag (p : fcfg * tstate) : bool := is_reported (snd p).

Record PInv (cf : cfg) (st : dst) : Prop := mkPInv {
  p_perm : Permutation (map fst (d_reported st)) (map (fun p => f_db (fst p)) (filter rep_flag (d_tasks st)))
}.

Lemma filter_upd_reported i f t had l :
  nth_error l i = Some (f, t) -> is_reported t = false ->
  Permutation (filter rep_flag (upd i (f, TReported had) l)) ((f, TReported had) :: filter rep_flag l).
Proof.
  revert i; induction l as [|[g u] l IH]; intros [|i]; cbn [nth_error upd]; try discriminate.
  - intros E Hn. injection E as -> ->. cbn [filter]. unfold rep_flag. cbn [snd is_reported]. rewrite Hn. reflexivity.
  - intros E Hn. specialize (IH _ E Hn). cbn [filter]. unfold rep_flag in *. cbn [snd] in *. destruct (is_reported u).
    + rewrite IH. apply perm_swap.
    + exact IH.
Qed.

Lemma filter_upd_unreported i f t t' l :
  nth_error l i = Some (f, t) -> is_reported t = false -> is_reported t' = false ->
  filter rep_flag (upd i (f, t') l) = filter rep_flag l.
Proof.
  revert i; induction l as [|[g u] l IH]; intros [|i]; cbn [nth_error upd]; try discriminate.
  - intros E Hn Hn'. injection E as -> ->. cbn [filter]. unfold rep_flag. cbn [snd]. rewrite Hn, Hn'. reflexivity.
  - intros E Hn Hn'. cbn [filter]. rewrite (IH _ E Hn Hn'). reflexivity.
Qed.

Lemma ttrans_unreported f tok nr next t t' evs next' :
  ttrans f tok nr next t t' evs next' -> is_reported t = false -> is_reported t' = false.
Proof. intros T; destruct T; cbn; auto. Qed.

Lemma ttrans_reported_same f tok nr next t t' evs next' :
  ttrans f tok nr next t t' evs next' -> is_reported t = true -> t' = t.
Proof. intros T; destruct T; cbn; auto; discriminate. Qed.

Lemma upd_same {A} i (x : A) l : nth_error l i = Some x -> upd i x l = l.
Proof.
  revert i; induction l as [|y l IH]; intros [|i]; cbn [nth_error upd]; try discriminate.
  - intros E; injection E as ->. reflexivity.
  - intros E. rewrite (IH _ E). reflexivity.
Qed.

Lemma PInv_trans cf st st' evs : PInv cf st -> trans cf st st' evs -> PInv cf st'.
Proof.
  intros [P] T. destruct T; try (constructor; cbn; assumption).
  - constructor. cbn [set_tasks d_reported d_tasks]. rewrite (filter_upd_unreported _ _ _ _ _ H1); auto.
  - constructor. cbn [set_tasks d_reported d_tasks]. destruct (is_reported t) eqn:Ir.
    + rewrite (ttrans_reported_same _ _ _ _ _ _ _ _ H1 Ir), (upd_same _ _ _ H0). exact P.
    + rewrite (filter_upd_unreported _ _ _ _ _ H0 Ir (ttrans_unreported _ _ _ _ _ _ _ _ H1 Ir)). exact P.
  - constructor. unfold report_result.
    assert (G : Permutation (map fst (d_reported st ++ [(f_db f, r)]))
                            (map (fun p => f_db (fst p)) (filter rep_flag (upd i (f, TReported had) (d_tasks st))))).
    { rewrite (filter_upd_reported _ _ _ had _ H0 eq_refl). rewrite map_app. cbn [map fst].
      rewrite Permutation_app_comm. cbn [app]. apply perm_skip. exact P. }
    destruct r; cbn [fst d_reported d_tasks]; exact G.
Qed.

Lemma PInv_init cf : PInv cf (dst0 cf).
Proof.
  constructor. cbn [dst0 d_reported d_tasks map].
  assert (E : filter rep_flag (map (fun f => (f, TIdle)) (c_files cf)) = []).
  { induction (c_files cf); cbn; auto. }
  rewrite E. constructor.
Qed.

Lemma filter_all {A} (g : A -> bool) l : forallb g l = true -> filter g l = l.
Proof.
  induction l as [|x l IH]; cbn [forallb filter]; [reflexivity|].
  rewrite andb_true_iff. intros [H1 H2]. rewrite H1, (IH H2). reflexivity.
Qed.

Lemma PInv_reach cf st st' tr : PInv cf st -> reach cf st st' tr -> PInv cf st'.
Proof. intros I R. induction R; [exact I|]. apply IHR. eapply PInv_trans; eauto. Qed.

(* once the stream phase is over, the reported files are the files, each exactly once *)
Theorem driver_reports_each_file_once cf sched st tr :
  drun cf (dst0 cf) sched = (st, tr) ->
  match d_phase st with DDrop _ | DClose | DEnd => True | _ => False end ->
  Permutation (map fst (d_reported st)) (dbs_of cf).
Proof.
  intros H Hp. apply drun_reach in H.
  destruct (PInv_reach _ _ _ _ (PInv_init cf) H) as [P].
  pose proof (DInv_reach _ _ _ _ (DInv_init cf) H) as D.
  pose proof (w_phase _ _ D) as Wp.
  assert (Hall : all_tasks is_reported (d_tasks st) = true).
  { destruct (d_phase st); try destruct Hp; tauto. }
  assert (Hall' : forallb rep_flag (d_tasks st) = true) by exact Hall.
  rewrite (filter_all _ _ Hall') in P.
  rewrite P. unfold dbs_of. rewrite <- (w_files _ _ D), map_map. reflexivity.
Qed.

(* the JUnit suite written at the end has exactly one case per selected file *)
Theorem driver_junit_one_case_per_file cf sched st tr :
  drun cf (dst0 cf) sched = (st, tr) ->
  match d_phase st with DDrop _ | DClose | DEnd => True | _ => False end ->
  fst (fst (junit_totals (results st))) = length (c_files cf).
Proof.
  intros H Hp. pose proof (driver_reports_each_file_once cf sched st tr H Hp) as P.
  apply Permutation_length in P. unfold junit_totals. cbn [fst]. unfold results. rewrite !map_length in *.
  unfold dbs_of in P. rewrite map_length in P. exact P.
Qed.

(* Ctrl-C at any point before the end, or any reported failure, makes the exit status of the driver non-zero *)
Corollary driver_ctrlc_or_failure_exit_nonzero cf sched st tr :
  drun cf (dst0 cf) sched = (st, tr) ->
  d_ctrlc st = true \/ (exists d b, In (d, RErr b) (d_reported st)) -> exit_of st <> 0.
Proof.
  intros H Hc E. apply (driver_exit_truth _ _ _ _ H) in E. destruct E as [Ha Hcc].
  destruct Hc as [Hc|[d [b Hin]]]; [congruence|].
  unfold all_ok, results in Ha. rewrite Forall_forall in Ha.
  assert (Hr : In (RErr b) (map snd (d_reported st))) by (apply in_map_iff; exists (d, RErr b); auto).
  specialize (Ha _ Hr). discriminate Ha.
Qed.
