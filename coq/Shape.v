(* Shape.v — what apply_record does to a query's rows before they are judged:
   sort (rows.sort_unstable on Vec<Vec<String>>), value count, MD5 digest line. *)
From Coq Require Import Sorting.Mergesort Orders.
From SLT Require Export Syntax MD5.
Open Scope N_scope.

(* Vec<String> ordering: lexicographic over the values, each compared as a string *)
Fixpoint row_leb (a b : list str) : bool :=
  match a, b with
  | [], _ => true
  | _ :: _, [] => false
  | x :: a', y :: b' =>
      if str_leb x y then (if str_leb y x then row_leb a' b' else true) else false
  end.

Lemma str_leb_total a b : str_leb a b = true \/ str_leb b a = true.
Proof.
  revert b; induction a as [|x a IH]; intros [|y b]; cbn; auto.
  destruct (N.ltb_spec x y), (N.ltb_spec y x), (N.eqb_spec x y), (N.eqb_spec y x); auto; try lia.
Qed.

Lemma row_leb_total a b : row_leb a b = true \/ row_leb b a = true.
Proof.
  revert b; induction a as [|x a IH]; intros [|y b]; cbn; auto.
  destruct (str_leb x y) eqn:E1, (str_leb y x) eqn:E2; auto.
  destruct (str_leb_total x y); congruence.
Qed.

Module RowOrder <: TotalLeBool.
  Definition t := list str.
  Definition leb := row_leb.
  Theorem leb_total : forall a1 a2, leb a1 a2 = true \/ leb a2 a1 = true.
  Proof. exact row_leb_total. Qed.
End RowOrder.
Module RowSort := Sort RowOrder.

Definition sort_rows (rows : list (list str)) : list (list str) := RowSort.sort rows.

(* query-level sort mode wins (including an explicit nosort), else the file-level one *)
Definition eff_sort (q f : option sortmode) : option sortmode :=
  match q with Some m => Some m | None => f end.

Definition values_of (rows : list (list str)) : list str := concat rows.

Definition sort_phase (m : option sortmode) (rows : list (list str)) : list (list str) * bool :=
  match m with
  | None | Some NoSort => (rows, false)
  | Some RowSort => (sort_rows rows, false)
  | Some ValueSort => (sort_rows (map (fun v => [v]) (values_of rows)), true)
  end.

Definition hash_input (rows : list (list str)) : list N :=
  utf8 (concat (map (fun v => v ++ [10]) (values_of rows))).

Definition values_hashing_to : str := lit " values hashing to ".

Definition hash_line (rows : list (list str)) : str :=
  dec (N.of_nat (length rows) * N.of_nat (length (hd [] rows)))
  ++ values_hashing_to ++ md5_hex (hash_input rows).

Definition shape (file_sort_ : option sortmode) (thr : N) (qsort : option sortmode)
           (types : str) (rows : list (list str)) : list (list str) :=
  let '(rows1, vs) := sort_phase (eff_sort qsort file_sort_) rows in
  let nvalues := if vs then N.of_nat (length rows1)
                 else N.of_nat (length rows1) * N.of_nat (length types) in
  if (0 <? thr) && (thr <? nvalues) then [[hash_line rows1]] else rows1.
