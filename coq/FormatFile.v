(* FormatFile.v — C05 at the level of FILES, through the driver of `sqllogictest --format`
   ([Update.update_loop] with [format_only = true]: nothing is executed, every record - also
   the records after a `halt` - is written as parsed, one output file per file of the include
   tree, trailing line feeds reduced to one by [trim_tail] when a file is closed).

   For every file of a tree that parses, the bytes `--format` leaves in the file are the UTF-8
   of a text that PARSES (same column-type function, same regex-validity oracle), to records
   with the MEANING of the records the file held before (FormatSpec.meaning: blank-line records
   and the grouping of comment blocks aside, the same records field by field), and formatting
   the parsed-back records again reproduces the same bytes (a fixed point at the level of bytes).

   Known finding D19 is the one exception, per file: a file whose last record other than blank
   lines ends with its empty SQL / command line ([dangling_end], UpdateText7.v) loses that line
   to the trimmer and no longer parses; the per-file conclusion is stated under
   [dangling_end frs = false].

   No [reread] is needed in format mode: Display trims an expected stdout of a `system` record,
   but the parser already returns it trimmed ([UpdateText.rec_ok_reread]: [reread r = r] for
   every record satisfying the parser-output invariant), so [map reread frs = frs]. *)
From SLT Require Import Base Text Syntax Duration Parser Render TextProofs RenderProofs
     Unparse FsTrim FsProofs FormatSpec FormatProofs Runner Update UpdateSpec UpdateProofs
     Include IncludeSpec IncludeProofs
     UpdateFile1 UpdateFile3 UpdateFile UpdateFs UpdateText UpdateText2 UpdateText3 UpdateText5
     UpdateText6 UpdateText7 UpdateEndToEnd.
Open Scope N_scope.

(* ------------------------------------------------------------------ 1. the driver on a list without markers *)
Section FormatFlat.
  Variable rm : str -> str -> bool.
  Variable sep : str.
  Variable strict : bool.
  Variable substitute : bool -> list (str * str) -> str -> subres.
  Variable sc : script.

  Notation update_loop := (update_loop rm sep strict substitute sc true).

  (* in format mode a list without include markers, all of whose records have a display, is
     written to the one open file, whatever the halt flag, the state and the world *)
  Lemma format_loop_flat : forall X it halt st w done ev kn bytes,
    Forall (fun r => marker r = None) X ->
    Forall has_display X ->
    trim_tail (utf8 (it_text it ++ recs_text X)) = TOk bytes ->
    update_loop X [it] halt st w done ev kn = UOk (done ++ [(it_file it, bytes)]) ev kn.
  Proof.
    induction X as [|r rest IH]; intros it halt st w done ev kn bytes Hm Hd Ht.
    - cbn [Update.update_loop]. unfold close_item.
      unfold recs_text in Ht. cbn [flat_map] in Ht. rewrite app_nil_r in Ht.
      rewrite Ht. reflexivity.
    - inversion Hm as [|r0 rest0 Hr Hrest]; subst.
      inversion Hd as [|r1 rest1 Hdr Hdrest]; subst.
      assert (Hcopy : forall h,
                 match write_rec it r with
                 | Some it' => update_loop rest [it'] h st w done ev kn
                 | None => UPanic done ev (map it_file [it])
                 end = UOk (done ++ [(it_file it, bytes)]) ev kn).
      { intros h. rewrite write_rec_some by exact Hdr.
        rewrite (IH _ h st w done ev kn bytes Hrest Hdrest); [reflexivity|].
        cbn [it_text]. rewrite <- app_assoc. exact Ht. }
      destruct r; cbn [marker] in Hr; try discriminate Hr; cbn [Update.update_loop];
        destruct halt; apply Hcopy.
  Qed.
End FormatFlat.

(* ------------------------------------------------------------------ 2. one file: text, meaning, fixed point *)
Lemma parsed_ok_reread_id col rv frs : parsed_ok col rv frs -> map reread frs = frs.
Proof.
  intros [Hok _]. induction Hok as [|r l Hr _ IH]; [reflexivity|].
  cbn [map]. rewrite (rec_ok_reread col rv r Hr), IH. reflexivity.
Qed.

Lemma write_records_display : forall rs f, write_records rs = Some f -> Forall has_display rs.
Proof.
  induction rs as [|r rs IH]; intros f H; [constructor|].
  cbn [write_records] in H. destruct (display r) as [a|] eqn:Hd; [|discriminate H].
  destruct (write_records rs) as [b|] eqn:Hw; [|discriminate H].
  constructor; [unfold has_display; rewrite Hd; discriminate | eapply IH; reflexivity].
Qed.

(* What one closed file holds.  [frs]: the records of the file as parsed (parser output);
   [bytes]: the trimmed UTF-8 of their text.  If the file does not end in a dangling empty SQL
   line, the bytes are a text that parses to [R] with the meaning of [frs]; [R] is the
   formatted-and-parsed list [reparse frs] (locations recomputed, adjacent comment blocks
   merged) less trailing blank-line records; [R] has no include markers, every record of [R]
   has a display, and the trimmed text of [R] is [bytes] again. *)
Theorem format_written_file :
  forall col rv frs bytes,
    parsed_ok col rv frs ->
    trim_tail (utf8 (recs_text frs)) = TOk bytes ->
    dangling_end frs = false ->
    forall pfile upper, exists text R n,
      bytes = utf8 text /\
      parse col rv pfile upper text = POk R /\
      reparse pfile upper 0 [] frs = R ++ repeat RNewline n /\
      meaning R = meaning frs /\
      Forall (fun r => marker r = None) R /\
      Forall has_display R /\
      trim_tail (utf8 (recs_text R)) = TOk bytes.
Proof.
  intros col rv frs bytes Hpo Ht Hend pfile upper.
  pose proof (parsed_ok_reread_id col rv frs Hpo) as Hid.
  assert (Hpo' : parsed_ok col rv (map reread frs)) by (rewrite Hid; exact Hpo).
  destruct (written_file_reparses_exact col rv frs bytes Hpo' Ht Hend pfile upper)
    as (text & R & n & Hb & Hparse & Hre & Hmean).
  rewrite Hid in Hre.
  assert (Hmean' : meaning R = meaning frs).
  { rewrite Hmean, <- meaning_map_reread, Hid. reflexivity. }
  destruct Hpo as [Hok Hscan].
  (* the text of the formatted-and-parsed list is the text of the list *)
  destruct (reparse_parse col rv pfile upper frs (conj Hok Hscan)) as (f & Hw & _).
  pose proof (write_records_text _ _ Hw) as Hf. subst f.
  pose proof (write_reparse pfile upper frs 0 [] _ (rec_ok_comment_ne col rv _ Hok) Hw) as Hw2.
  unfold wc in Hw2. cbn [map lf_lines flat_map app] in Hw2. rewrite Hre in Hw2.
  pose proof (write_records_display _ _ Hw2) as Hdall.
  apply Forall_app in Hdall. destruct Hdall as [HdR _].
  pose proof (write_records_text _ _ Hw2) as Htext.
  rewrite recs_text_app, recs_text_blanks in Htext.
  assert (Hmk : Forall (fun r => marker r = None) R).
  { assert (Hall : Forall (fun r => marker r = None) (R ++ repeat RNewline n)).
    { rewrite <- Hre. apply reparse_no_marker. apply Forall_forall. intros r Hr.
      rewrite Forall_forall in Hok. eapply rec_ok_no_marker. apply Hok. exact Hr. }
    apply Forall_app in Hall. apply Hall. }
  assert (Htrim : trim_tail (utf8 (recs_text R)) = TOk bytes).
  { apply (trim_tail_drop_blanks _ n); [apply recs_text_end | | rewrite Htext; exact Ht].
    intros E. destruct n as [|n]; [reflexivity|]. exfalso.
    apply recs_text_nil_inv in E; [|exact HdR]. subst R.
    unfold recs_text at 1 in Htext. cbn [flat_map app] in Htext. rewrite <- Htext in Ht.
    change (repeat 10 (S n)) with ([] ++ repeat 10 (S n)) in Ht.
    rewrite utf8_app, utf8_repeat_nl in Ht.
    rewrite trim_tail_spec in Ht; [| cbn; discriminate | lia].
    inversion Ht as [Hx]. cbn [utf8 flat_map app] in Hx. rewrite Hb in Hx. symmetry in Hx.
    apply utf8_eq_nl in Hx. subst text. rewrite parse_single_nl in Hparse. discriminate Hparse. }
  exists text, R, n. repeat split; assumption.
Qed.
Print Assumptions format_written_file.

(* the property of one (input records, bytes written) pair that the theorems below assert:
   the bytes parse back to the same meaning, and formatting the parsed-back records again -
   under any file name, from any runner state and world, as a single file - writes exactly
   the same bytes, raises no event and no known-finding flag *)
Definition format_fixed_point (col : N -> option N) (rv : str -> bool)
           (rm : str -> str -> bool) (sep : str) (strict : bool)
           (substitute : bool -> list (str * str) -> str -> subres) (sc : script)
           (frs : list record) (bytes : list N) : Prop :=
  dangling_end frs = false ->
  forall (pfile : str) (upper : option loc),
  exists (text : str) (R : list record),
    bytes = utf8 text /\
    parse col rv pfile upper text = POk R /\
    meaning R = meaning frs /\
    forall (name : str) (st2 : rstate) (w2 : world),
      update_loop rm sep strict substitute sc true R [mkItem name []] false st2 w2 [] [] []
      = UOk [(name, bytes)] [] [].

Lemma closed_file_fixed_point col rv rm sep strict substitute sc frs bytes :
  parsed_ok col rv frs ->
  trim_tail (utf8 (recs_text frs)) = TOk bytes ->
  format_fixed_point col rv rm sep strict substitute sc frs bytes.
Proof.
  intros Hpo Ht Hend pfile upper.
  destruct (format_written_file col rv frs bytes Hpo Ht Hend pfile upper)
    as (text & R & n & Hb & Hparse & _ & Hmean & Hmk & Hd & Htrim).
  exists text, R. split; [exact Hb|]. split; [exact Hparse|]. split; [exact Hmean|].
  intros name st2 w2.
  rewrite (format_loop_flat rm sep strict substitute sc R (mkItem name []) false st2 w2 [] [] [] bytes
             Hmk Hd); [reflexivity|].
  cbn [it_text app]. exact Htrim.
Qed.

(* ------------------------------------------------------------------ 3. a single file (no include expansion) *)
(* [s]: the content of the file before; [rs] its parse ([pfile] / [upper] are the location
   parameters of the parser); the record list is handed to the driver as it is.  An `include`
   record of [rs] is a record like any other here (written as `include <pattern>`). *)
Theorem format_file_single :
  forall (col : N -> option N) (rv : str -> bool) (rm : str -> str -> bool) (sep : str) (strict : bool)
         (substitute : bool -> list (str * str) -> str -> subres) (sc : script),
    col_stable col ->
    forall (pfile : str) (upper : option loc) (main : str) (s : str) (rs : list record)
           (st : rstate) (w : world) (written : list (str * list N)) (ev : list event) (kn : list N),
      no_trailing_cr s ->
      parse col rv pfile upper s = POk rs ->
      update_loop rm sep strict substitute sc true rs [mkItem main []] false st w [] [] []
        = UOk written ev kn ->
      ev = [] /\ kn = [] /\
      exists bytes,
        written = [(main, bytes)] /\
        trim_tail (utf8 (recs_text rs)) = TOk bytes /\
        (dangling_end rs = false ->
         exists text R,
           bytes = utf8 text /\
           (* the file written parses, to the same meaning *)
           parse col rv pfile upper text = POk R /\
           meaning R = meaning rs /\
           (* and formatting it again reproduces the bytes *)
           update_loop rm sep strict substitute sc true R [mkItem main []] false st w [] [] []
             = UOk written [] []).
Proof.
  intros col rv rm sep strict substitute sc Hcol pfile upper main s rs st w written ev kn Hcr Hp HU.
  pose proof (parse_parsed_ok col rv pfile upper Hcol s rs Hcr Hp) as Hpo.
  destruct (format_loop_files rm sep strict substitute sc _ _ _ _ _ _ _ _ _ _ _ [(main, [])] [] HU)
    as (files & Hs & HF & _ & E1 & E2).
  { constructor; [split; reflexivity | constructor]. }
  { constructor. }
  split; [exact E1|]. split; [exact E2|].
  assert (Hmk : Forall (fun r => marker r = None) rs).
  { destruct Hpo as [Hok _]. eapply Forall_impl; [|exact Hok].
    intros r Hr. eapply rec_ok_no_marker. exact Hr. }
  rewrite (split_files_flat rs main [] Hmk) in Hs. inversion Hs; subst files. cbn [app] in HF.
  inversion HF as [|p d lp ld Hpd Hrest]; subst. inversion Hrest; subst.
  destruct d as [dn db]. destruct Hpd as [Hn Ht]. cbn [fst snd] in Hn, Ht. subst dn.
  exists db. split; [reflexivity|]. split; [exact Ht|].
  intros Hend.
  destruct (closed_file_fixed_point col rv rm sep strict substitute sc rs db Hpo Ht Hend pfile upper)
    as (text & R & Hb & Hparse & Hmean & Hfix).
  exists text, R. split; [exact Hb|]. split; [exact Hparse|]. split; [exact Hmean|].
  apply Hfix.
Qed.
Print Assumptions format_file_single.

(* ------------------------------------------------------------------ 4. the files of an include tree are parses of file contents *)
Section Sources.
  Variable col : N -> option N.
  Variable rv : str -> bool.
  Variable fs : str -> option fentry.
  Variable glob : str -> globres.
  Hypothesis Hcol : col_stable col.
  Hypothesis Hfs : forall f s, fs f = Some (FFile s) -> no_trailing_cr s.

  Notation expands := (expands col rv fs glob).
  Notation splice := (splice col rv fs glob).
  Notation expands_all := (expands_all col rv fs glob).

  (* the records attributed to a file are the parse of the content the file system has for it *)
  Definition from_source (p : str * list record) : Prop :=
    exists s upper, fs (fst p) = Some (FFile s) /\ parse col rv (fst p) upper s = POk (snd p).
  Definition all_src (dn : list (str * list record)) : Prop := Forall from_source dn.

  Lemma all_src_app a b : all_src a -> all_src b -> all_src (a ++ b).
  Proof. intros Ha Hb. apply Forall_app. split; assumption. Qed.

  Lemma split_files_src_mut :
    (forall l out, expands l out ->
       exists frs dn, from_source (loc_file l, frs) /\ all_src dn /\
         forall g pre stack done tail,
           split_files (out ++ tail) ((g, pre) :: stack) done =
           split_files tail ((g, pre ++ frs) :: stack) (done ++ dn)) /\
    (forall file rs out, IncludeSpec.splice col rv fs glob file rs out ->
       Forall (fun r => marker r = None) rs ->
       exists dn, all_src dn /\
         forall g pre stack done tail,
           split_files (out ++ tail) ((g, pre) :: stack) done =
           split_files tail ((g, pre ++ rs) :: stack) (done ++ dn)) /\
    (forall il fl inners, expands_all il fl inners ->
       exists dn, all_src dn /\
         forall g pre stack done tail,
           split_files (brackets fl inners ++ tail) ((g, pre) :: stack) done =
           split_files tail ((g, pre) :: stack) (done ++ dn)).
  Proof.
    apply expands_mutind.
    - intros file n upper script rs out Hf Hp _ IH.
      assert (Hok : parsed_ok col rv rs).
      { eapply parse_parsed_ok; [exact Hcol | eapply Hfs; exact Hf | exact Hp]. }
      destruct IH as (dn & Hdn & Hsp).
      { destruct Hok as [Hok _]. eapply Forall_impl; [|exact Hok].
        intros r Hr. eapply rec_ok_no_marker. exact Hr. }
      exists rs, dn. split; [|split; [exact Hdn | exact Hsp]].
      exists script, upper. cbn [loc_file fst snd]. split; assumption.
    - intros file _. exists []. split; [constructor|].
      intros g pre stack done tail. rewrite !app_nil_r. reflexivity.
    - intros file r rest out Hi _ IH Hall.
      inversion Hall as [|r' rest' Hr Hrest]; subst.
      destruct (IH Hrest) as (dn & Hdn & Hsp). exists dn. split; [exact Hdn|].
      intros g pre stack done tail. cbn [app]. rewrite split_plain by exact Hr.
      rewrite Hsp. rewrite <- app_assoc. reflexivity.
    - intros file il fn files inners rest out _ _ _ IHa _ IHb Hall.
      inversion Hall as [|r' rest' Hr Hrest]; subst.
      destruct IHa as (dn1 & Hdn1 & Hsp1). destruct (IHb Hrest) as (dn2 & Hdn2 & Hsp2).
      exists (dn1 ++ dn2). split; [apply all_src_app; assumption|].
      intros g pre stack done tail. cbn [app]. rewrite split_plain by reflexivity.
      rewrite <- app_assoc. rewrite Hsp1, Hsp2. rewrite <- !app_assoc. reflexivity.
    - intros il. exists []. split; [constructor|].
      intros g pre stack done tail. rewrite app_nil_r. reflexivity.
    - intros il f fl inner inners _ IHa _ IHb.
      destruct IHa as (frs & dn1 & Hfrs & Hdn1 & Hsp1). destruct IHb as (dn2 & Hdn2 & Hsp2).
      exists (dn1 ++ [(f, frs)] ++ dn2). split.
      { apply all_src_app; [exact Hdn1|]. apply all_src_app; [|exact Hdn2].
        constructor; [exact Hfrs | constructor]. }
      intros g pre stack done tail. rewrite brackets_cons.
      cbn [split_files marker]. rewrite Hsp1. cbn [split_files marker app].
      rewrite Hsp2. rewrite <- !app_assoc. reflexivity.
  Qed.

  Theorem expands_files_from_source main n out :
    expands (Loc main n None) out ->
    exists files, split_files out [(main, [])] [] = Some files /\ all_src files.
  Proof.
    intros H. destruct (proj1 split_files_src_mut _ _ H) as (frs & dn & Hfrs & Hdn & Hsp).
    exists (dn ++ [(main, frs)]). split.
    - rewrite <- (app_nil_r out). rewrite Hsp. reflexivity.
    - apply all_src_app; [exact Hdn | constructor; [exact Hfrs | constructor]].
  Qed.

  Lemma from_source_parsed_ok p : from_source p -> parsed_ok col rv (snd p).
  Proof.
    intros (s & upper & Hf & Hp).
    eapply parse_parsed_ok; [exact Hcol | eapply Hfs; exact Hf | exact Hp].
  Qed.
End Sources.

(* ------------------------------------------------------------------ 5. THE THEOREM: a file tree *)
(* [fs] / [glob]: the file system and the glob oracle of Include.parse_file; [rs]: the
   flattened list parse_file returns for [main] (include markers around every included file).
   `--format` raises no event and no known-finding flag; [files_in] attributes the records of
   [rs] to files by the markers; the records of each file are the parse of the content the file
   system holds for that file; and the driver reports, file by file and in closing order, the
   trimmed text of those records, which (D19 aside) parses back to the same meaning and is a
   fixed point of formatting. *)
Theorem format_file_end_to_end :
  forall (col : N -> option N) (rv : str -> bool) (rm : str -> str -> bool) (sep : str) (strict : bool)
         (substitute : bool -> list (str * str) -> str -> subres) (sc : script)
         (fs : str -> option fentry) (glob : str -> globres) (fuel : nat) (main : str)
         (rs : list record) (st : rstate) (w : world)
         (written : list (str * list N)) (ev : list event) (kn : list N),
    col_stable col ->
    (forall f s, fs f = Some (FFile s) -> no_trailing_cr s) ->
    parse_file col rv fs glob fuel main = FOkR rs ->
    update_loop rm sep strict substitute sc true rs [mkItem main []] false st w [] [] []
      = UOk written ev kn ->
    ev = [] /\ kn = [] /\
    exists files_in,
      split_files rs [(main, [])] [] = Some files_in /\
      Forall (from_source col rv fs) files_in /\
      Forall2 (fun (pin : str * list record) (d : str * list N) =>
                 fst d = fst pin /\
                 trim_tail (utf8 (recs_text (snd pin))) = TOk (snd d) /\
                 format_fixed_point col rv rm sep strict substitute sc (snd pin) (snd d))
              files_in written.
Proof.
  intros col rv rm sep strict substitute sc fs glob fuel main rs st w written ev kn Hcol Hfs Hpf HU.
  unfold parse_file in Hpf. apply expand_sound in Hpf.
  destruct (expands_files_from_source col rv fs glob Hcol Hfs main 0 rs Hpf) as (files_in & Hsin & Hsrc).
  destruct (format_loop_files rm sep strict substitute sc _ _ _ _ _ _ _ _ _ _ _ [(main, [])] [] HU)
    as (files & Hs & HF & _ & E1 & E2).
  { constructor; [split; reflexivity | constructor]. }
  { constructor. }
  split; [exact E1|]. split; [exact E2|].
  rewrite Hsin in Hs. inversion Hs; subst files.
  exists files_in. split; [exact Hsin|]. split; [exact Hsrc|].
  unfold all_src in Hsrc. clear - Hcol Hfs Hsrc HF.
  induction HF as [|p d l l' [Hn Ht] _ IH]; [constructor|].
  inversion Hsrc as [|p0 l0 Hp Hrest]; subst. constructor; [|apply IH; exact Hrest].
  split; [exact Hn|]. split; [exact Ht|].
  apply closed_file_fixed_point; [|exact Ht].
  eapply from_source_parsed_ok; eassumption.
Qed.
Print Assumptions format_file_end_to_end.

(* the same, read from the side of the files written: "for every written (file, bytes)" *)
Corollary format_file_end_to_end_written :
  forall (col : N -> option N) (rv : str -> bool) (rm : str -> str -> bool) (sep : str) (strict : bool)
         (substitute : bool -> list (str * str) -> str -> subres) (sc : script)
         (fs : str -> option fentry) (glob : str -> globres) (fuel : nat) (main : str)
         (rs : list record) (st : rstate) (w : world)
         (written : list (str * list N)) (ev : list event) (kn : list N),
    col_stable col ->
    (forall f s, fs f = Some (FFile s) -> no_trailing_cr s) ->
    parse_file col rv fs glob fuel main = FOkR rs ->
    update_loop rm sep strict substitute sc true rs [mkItem main []] false st w [] [] []
      = UOk written ev kn ->
    ev = [] /\ kn = [] /\
    forall file bytes, In (file, bytes) written ->
      exists (s : str) (up : option loc) (frs : list record),
        (* the file existed, and [frs] is the parse of its content *)
        fs file = Some (FFile s) /\
        parse col rv file up s = POk frs /\
        trim_tail (utf8 (recs_text frs)) = TOk bytes /\
        (dangling_end frs = false ->
         forall (pfile : str) (upper : option loc),
         exists (text : str) (R : list record),
           bytes = utf8 text /\
           parse col rv pfile upper text = POk R /\
           meaning R = meaning frs /\
           forall st2 w2,
             update_loop rm sep strict substitute sc true R [mkItem file []] false st2 w2 [] [] []
             = UOk [(file, bytes)] [] []).
Proof.
  intros col rv rm sep strict substitute sc fs glob fuel main rs st w written ev kn Hcol Hfs Hpf HU.
  destruct (format_file_end_to_end col rv rm sep strict substitute sc fs glob fuel main rs st w
              written ev kn Hcol Hfs Hpf HU) as (E1 & E2 & files_in & _ & Hsrc & HF).
  split; [exact E1|]. split; [exact E2|].
  intros file bytes Hin.
  destruct (Forall2_In_right _ _ _ _ HF Hin) as ([f frs] & Hp & Hn & Ht & Hfix).
  cbn [fst snd] in Hn, Ht, Hfix. subst f.
  rewrite Forall_forall in Hsrc. destruct (Hsrc _ Hp) as (s & up & Hfile & Hparse).
  cbn [fst snd] in Hfile, Hparse.
  exists s, up, frs. split; [exact Hfile|]. split; [exact Hparse|]. split; [exact Ht|].
  intros Hend pfile upper.
  destruct (Hfix Hend pfile upper) as (text & R & Hb & HpR & Hm & Hagain).
  exists text, R. split; [exact Hb|]. split; [exact HpR|]. split; [exact Hm|].
  intros st2 w2. apply Hagain.
Qed.
Print Assumptions format_file_end_to_end_written.
