(* DriverSim.v — every trace the driver model (Driver.v) can emit, under every list of
   scheduler choices, is accepted by the observer automaton of Par.v: a forward simulation
   [Rel] between driver states and automaton states, preserved by every transition. *)
From SLT Require Import Base Par Cli ParProofs Driver DriverTrans DriverInv.
Open Scope N_scope.

Record TRel (db : str) (t : tstate) (p : pst) : Prop := mkTRel {
  tr_sess : forall s, In s (open_of t) -> In (db, s) (sessions p);
  tr_started : mem db (started p) = had_of t;
  tr_closing : mem db (closing p) = true -> post_run t = true;
  tr_fin : settled t = true -> had_of t = true -> mem db (finished p) = true
}.

Record Rel (cf : cfg) (st : dst) (p : pst) : Prop := mkRel {
  r_closed : closed_ p = match d_phase st with DEnd => true | _ => false end;
  r_dropping : dropping p = true -> match d_phase st with DCreate _ | DStream => False | _ => True end;
  r_created : match d_phase st with
              | DCreate todo => created p ++ todo = dbs_of cf
              | _ => created p = dbs_of cf
              end;
  r_tok : cancelled_ p = d_token st;
  r_seen : forall s, memN s (seen p) = true -> s < d_next st;
  r_task : forall i f t, nth_error (d_tasks st) i = Some (f, t) -> TRel (f_db f) t p;
  r_sess2 : forall db s, In (db, s) (sessions p) ->
            exists i f t, nth_error (d_tasks st) i = Some (f, t) /\ f_db f = db /\ In s (open_of t);
  r_nodup : NoDup (sessions p);
  r_started_nodup : NoDup (started p);
  r_started_sub : forall d, In d (started p) -> In d (dbs_of cf);
  r_dropped : match d_phase st with
              | DCreate _ | DStream => dropped p = []
              | DDrop todo => exists pre, dbs_of cf = pre ++ todo /\
                                (forall d, mem d (dropped p) = true -> In d pre) /\
                                (forall d, In d pre -> mem d (dropped p) = true \/
                                                      c_keep cf && mem d (d_failed_db st) = true)
              | _ => forall d, In d (dbs_of cf) -> mem d (dropped p) = true \/ mem d (kept_of cf st) = true
              end;
  r_inflight : match d_phase st with DDrop _ | DClose | DEnd => inflight p = [] | _ => True end
}.

(* the list of kept databases is only consulted once the stream phase is over *)
Definition Kok (cf : cfg) (st : dst) (K : list str) : Prop :=
  match d_phase st with
  | DCreate _ | DStream => True
  | _ => forall d, mem d K = mem d (kept_of cf st)
  end.

Lemma Kok_back cf st st' evs K : trans cf st st' evs -> Kok cf st' K -> Kok cf st K.
Proof.
  intros T; destruct T; unfold Kok, kept_of; cbn [set_phase set_tasks d_phase d_refused d_failed_db]; auto;
    try (rewrite H; auto; fail).
Qed.

Lemma Kok_back_reach cf st st' tr K : reach cf st st' tr -> Kok cf st' K -> Kok cf st K.
Proof. intros R; induction R; auto. intros HK. eapply Kok_back; eauto. Qed.

(* ---- small facts ---- *)
Lemma tasks_db_index cf st i j f g t u :
  wf_cfg cf -> map fst (d_tasks st) = c_files cf ->
  nth_error (d_tasks st) i = Some (f, t) -> nth_error (d_tasks st) j = Some (g, u) ->
  f_db f = f_db g -> i = j.
Proof.
  intros Wf Hm Hi Hj E. unfold wf_cfg, dbs_of in Wf. rewrite <- Hm, map_map in Wf.
  assert (Li : nth_error (map (fun x => f_db (fst x)) (d_tasks st)) i = Some (f_db f)).
  { rewrite nth_error_map, Hi. reflexivity. }
  assert (Lj : nth_error (map (fun x => f_db (fst x)) (d_tasks st)) j = Some (f_db f)).
  { rewrite nth_error_map, Hj, E. reflexivity. }
  eapply (proj1 (NoDup_nth_error _) Wf); [|rewrite Li, Lj; reflexivity].
  apply nth_error_Some. rewrite Li. discriminate.
Qed.

Lemma task_db_in cf st i f t : map fst (d_tasks st) = c_files cf ->
  nth_error (d_tasks st) i = Some (f, t) -> In (f_db f) (dbs_of cf).
Proof.
  intros Hm Hi. unfold dbs_of. rewrite <- Hm, map_map. apply in_map_iff. exists (f, t). split; [reflexivity|].
  eapply nth_error_In; exact Hi.
Qed.

Lemma db_task cf st d : map fst (d_tasks st) = c_files cf -> In d (dbs_of cf) ->
  exists i f t, nth_error (d_tasks st) i = Some (f, t) /\ f_db f = d.
Proof.
  intros Hm Hd. unfold dbs_of in Hd. rewrite <- Hm, map_map in Hd. apply in_map_iff in Hd.
  destruct Hd as [[f t] [E Hin]]. apply In_nth_error in Hin. destruct Hin as [i Hi]. exists i, f, t. auto.
Qed.

Lemma filter_nil {A} (g : A -> bool) l : (forall x, In x l -> g x = false) -> filter g l = [].
Proof.
  induction l as [|x l IH]; cbn [filter]; intros H; [reflexivity|].
  rewrite (H x (or_introl eq_refl)). apply IH. intros y Hy. apply H. right; exact Hy.
Qed.

Lemma filter_length_lt {A} (g h : A -> bool) l i x :
  (forall y, g y = true -> h y = true) -> nth_error l i = Some x -> g x = false -> h x = true ->
  (length (filter g l) < length (filter h l))%nat.
Proof.
  intros Hgh. revert i; induction l as [|y l IH]; intros [|i]; cbn [nth_error filter]; try discriminate.
  - intros E Hg Hh. injection E as ->. rewrite Hg, Hh. cbn [length].
    pose proof (filter_length_le g h l Hgh). lia.
  - intros E Hg Hh. specialize (IH _ E Hg Hh). destruct (g y) eqn:G.
    + rewrite (Hgh _ G). cbn [length]. lia.
    + destruct (h y); cbn [length]; lia.
Qed.

Lemma mem_cons_other x y l : x <> y -> mem x (y :: l) = mem x l.
Proof.
  intros H. cbn [mem]. destruct (str_eqb_spec x y); [congruence|reflexivity].
Qed.

Lemma mem_snoc x y l : mem x (l ++ [y]) = mem x l || str_eqb x y.
Proof.
  induction l as [|z l IH]; cbn [app mem]; [rewrite orb_false_r; reflexivity|].
  rewrite IH, orb_assoc. reflexivity.
Qed.

(* the busy files: they opened a session and have not closed all of them *)
Definition busy (p : fcfg * tstate) : bool := had_of (snd p) && negb (settled (snd p)).

Lemma busy_active p : busy p = true -> active (snd p) = true.
Proof. destruct p as [f t]. unfold busy. cbn [snd]. destruct t as [| | |r c|r [|s o] h|r h|h]; cbn; try discriminate; try reflexivity; rewrite ?andb_false_r; try discriminate. Qed.

Lemma inflight_le_busy cf st p :
  wf_cfg cf -> DInv cf st -> Rel cf st p ->
  (length (inflight p) <= length (filter busy (d_tasks st)))%nat.
Proof.
  intros Wf D R.
  assert (Hincl : incl (inflight p) (map (fun x => f_db (fst x)) (filter busy (d_tasks st)))).
  { intros d Hd. unfold inflight in Hd. apply filter_In in Hd. destruct Hd as [Hs Hf].
    destruct (db_task cf st d (w_files _ _ D) (r_started_sub _ _ _ R _ Hs)) as [i [f [t [Hi E]]]].
    pose proof (r_task _ _ _ R _ _ _ Hi) as T. rewrite E in T.
    apply in_map_iff. exists (f, t). split; [exact E|]. apply filter_In. split; [eapply nth_error_In; exact Hi|].
    unfold busy. cbn [snd].
    assert (Hh : had_of t = true). { rewrite <- (tr_started _ _ _ T). apply mem_In; exact Hs. }
    rewrite Hh. cbn [andb]. destruct (settled t) eqn:S; [|reflexivity].
    rewrite (tr_fin _ _ _ T S Hh) in Hf. discriminate Hf. }
  assert (Hnd : NoDup (inflight p)) by (unfold inflight; apply NoDup_filter; exact (r_started_nodup _ _ _ R)).
  pose proof (NoDup_incl_length Hnd Hincl) as L. rewrite map_length in L. exact L.
Qed.

(* other tasks do not care about changes that concern database [db] only *)
Lemma TRel_other db db' t p p' :
  db' <> db ->
  (forall s, In (db', s) (sessions p) -> In (db', s) (sessions p')) ->
  mem db' (started p') = mem db' (started p) ->
  (mem db' (closing p') = true -> mem db' (closing p) = true) ->
  (mem db' (finished p) = true -> mem db' (finished p') = true) ->
  TRel db' t p -> TRel db' t p'.
Proof.
  intros Hne Hs Hst Hcl Hfi [A B C D]. constructor.
  - intros s Hin. apply Hs, A, Hin.
  - rewrite Hst. exact B.
  - intros H. apply C, Hcl, H.
  - intros H1 H2. apply Hfi, D; assumption.
Qed.

Ltac rel_fields := cbn [set_phase set_tasks d_phase d_tasks d_token d_ctrlc d_failed_db d_refused d_reported d_next
                        created sessions seen started closing finished dropped cancelled_ dropping closed_].

(* ------------------------------------------------------------------------- *)
(* silent steps: the automaton does not move                                   *)

Lemma Rel_silent_task cf st p i f t t' :
  Rel cf st p -> d_phase st = DStream -> nth_error (d_tasks st) i = Some (f, t) ->
  open_of t' = open_of t -> had_of t' = had_of t -> (post_run t = true -> post_run t' = true) ->
  (settled t' = true -> had_of t' = true -> settled t = true \/ open_of t = [] /\ post_run t = false) ->
  Rel cf (set_tasks st (upd i (f, t') (d_tasks st)) (d_next st)) p.
Proof.
  intros R P Hi Eo Eh Ep Es. destruct R as [R1 R2 R3 R4 R5 R6 R7 R8 R9 R10 R11 R12].
  constructor; rel_fields; auto.
  - intros j g u Hj. destruct (nth_error_upd _ _ _ _ _ _ Hi Hj) as [[-> E]|[_ E]]; [|eapply R6; exact E].
    injection E as -> ->. destruct (R6 _ _ _ Hi) as [A B C D]. constructor.
    + rewrite Eo. exact A.
    + rewrite Eh. exact B.
    + intros H. apply Ep, C, H.
    + intros H1 H2. destruct (Es H1 H2) as [S|[S1 S2]].
      * apply D; [exact S|rewrite <- Eh; exact H2].
      * (* it never opened a session: contradiction with had *)
        exfalso. rewrite Eh in H2.
        destruct t as [| | |r c|r o h|r h|h]; cbn in *; try discriminate.
        destruct c; cbn in *; [discriminate|discriminate].
  - intros db s Hin. destruct (R7 db s Hin) as [j [g [u [Hj [E1 E2]]]]].
    destruct (Nat.eq_dec i j) as [->|Ne].
    + rewrite Hi in Hj. injection Hj as <- <-. exists j, f, t'. rewrite (nth_error_upd_eq _ _ _ _ Hi), Eo. auto.
    + exists j, g, u. rewrite nth_error_upd_ne by exact Ne. auto.
Qed.

(* the same for any successor state that agrees on what [Rel] reads in the stream phase *)
Lemma Rel_silent_gen cf st p i f t t' st' :
  Rel cf st p -> d_phase st = DStream -> nth_error (d_tasks st) i = Some (f, t) ->
  open_of t' = open_of t -> had_of t' = had_of t -> (post_run t = true -> post_run t' = true) ->
  (settled t' = true -> had_of t' = true -> settled t = true \/ open_of t = [] /\ post_run t = false) ->
  d_phase st' = DStream -> d_tasks st' = upd i (f, t') (d_tasks st) -> d_next st' = d_next st -> d_token st' = d_token st ->
  Rel cf st' p.
Proof.
  intros R P Hi Eo Eh Ep Es P' T' N' K'.
  pose proof (Rel_silent_task cf st p i f t t' R P Hi Eo Eh Ep Es) as R'.
  destruct R' as [R1 R2 R3 R4 R5 R6 R7 R8 R9 R10 R11 R12]. revert R1 R2 R3 R4 R5 R6 R7 R8 R9 R10 R11 R12.
  rel_fields. rewrite P. intros.
  constructor; rewrite ?P', ?T', ?N', ?K'; auto.
Qed.

Lemma Rel_cancel cf st p cc :
  Rel cf st p -> closed_ p = false ->
  Rel cf (mkDst (d_phase st) (d_tasks st) true cc (d_failed_db st) (d_refused st) (d_reported st) (d_next st))
         (mkPst (created p) (sessions p) (seen p) (started p) (closing p) (finished p) (dropped p) true (dropping p) false).
Proof.
  intros [R1 R2 R3 R4 R5 R6 R7 R8 R9 R10 R11 R12] Hc.
  constructor; rel_fields; auto.
  - rewrite <- R1. symmetry; exact Hc.
  - intros i f t Hi. destruct (R6 _ _ _ Hi) as [A B C D]. constructor; auto.
Qed.

Lemma NoDup_snoc {A} (x : A) l : NoDup l -> ~ In x l -> NoDup (l ++ [x]).
Proof.
  induction l as [|y l IH]; cbn [app]; intros Hnd Hx.
  - constructor; [intros []|constructor].
  - inversion Hnd as [|y' l' Hy Hl]; subst. constructor.
    + rewrite in_app_iff. cbn [In]. intros [H|[H|[]]]; [exact (Hy H)|]. subst. apply Hx. left; reflexivity.
    + apply IH; [exact Hl|]. intros H. apply Hx. right; exact H.
Qed.

Lemma NoDup_app_mid {A} (pre : list A) x post : NoDup (pre ++ x :: post) -> ~ In x pre.
Proof. intros H Hin. apply NoDup_remove_2 in H. apply H. apply in_or_app. left; exact Hin. Qed.

Lemma closing_false cf st p i f r c :
  Rel cf st p -> nth_error (d_tasks st) i = Some (f, TRunning r c) -> mem (f_db f) (closing p) = false.
Proof.
  intros R Hi. destruct (mem (f_db f) (closing p)) eqn:E; [|reflexivity].
  pose proof (tr_closing _ _ _ (r_task _ _ _ R _ _ _ Hi) E) as H. discriminate H.
Qed.

(* ------------------------------------------------------------------------- *)
(* a session is opened                                                         *)
Lemma sim_connect cf st p i f c r conns K :
  wf_cfg cf -> DInv cf st -> Rel cf st p -> d_phase st = DStream -> d_token st = false ->
  nth_error (d_tasks st) i = Some (f, TRunning (AConnect c :: r) conns) ->
  exists p', pstep (mkParams (c_jobs cf) K) p (PConnect (f_db f) (d_next st)) = Some p' /\
             Rel cf (set_tasks st (upd i (f, TRunning r ((c, d_next st) :: conns)) (d_tasks st)) (d_next st + 1)) p'.
Proof.
  intros Wf D R P Tk Hi.
  pose proof (closing_false _ _ _ _ _ _ _ R Hi) as Hclo.
  pose proof (inflight_le_busy _ _ _ Wf D R) as Hbusy.
  pose proof (r_task _ _ _ R _ _ _ Hi) as Ti.
  pose proof (w_sid _ _ D _ _ _ Hi) as [Sa [Sb Sc]]. cbn [open_of had_of] in Sa, Sb, Sc.
  pose proof (task_db_in _ _ _ _ _ (w_files _ _ D) Hi) as Hdb.
  destruct R as [R1 R2 R3 R4 R5 R6 R7 R8 R9 R10 R11 R12]. rewrite P in *.
  assert (Hseen : memN (d_next st) (seen p) = false).
  { destruct (memN (d_next st) (seen p)) eqn:E; [|reflexivity]. apply R5 in E. lia. }
  assert (Hdrop : dropping p = false).
  { destruct (dropping p) eqn:E; [destruct (R2 eq_refl)|reflexivity]. }
  assert (Hcr : mem (f_db f) (created p) = true) by (rewrite R3; apply mem_In; exact Hdb).
  assert (Hfresh : ~ In (f_db f, d_next st) (sessions p)).
  { intros Hin. destruct (R7 _ _ Hin) as [j [g [u [Hj [_ Hs]]]]].
    destruct (w_sid _ _ D _ _ _ Hj) as [_ [B _]]. specialize (B _ Hs). lia. }
  assert (Hother : forall j g u, nth_error (d_tasks st) j = Some (g, u) -> i <> j -> f_db g <> f_db f).
  { intros j g u Hj Ne E. apply Ne.
    eapply tasks_db_index; [exact Wf|exact (w_files _ _ D)|exact Hi|exact Hj|symmetry; exact E]. }
  unfold pstep. rewrite R1, Hdrop, Hcr, Hclo, Hseen. cbn [orb negb].
  pose proof (tr_started _ _ _ Ti) as Hst. cbn [had_of] in Hst.
  (* the part of Rel that does not depend on which branch is taken *)
  assert (Common : forall st_started cancelled',
            (mem (f_db f) st_started = true) ->
            (forall d, d <> f_db f -> mem d st_started = mem d (started p)) ->
            NoDup st_started -> (forall d, In d st_started -> In d (dbs_of cf)) ->
            cancelled' = false ->
            Rel cf (set_tasks st (upd i (f, TRunning r ((c, d_next st) :: conns)) (d_tasks st)) (d_next st + 1))
                (mkPst (created p) ((f_db f, d_next st) :: sessions p) (d_next st :: seen p) st_started (closing p)
                       (finished p) (dropped p) cancelled' false false)).
  { intros ss cc Hm Ho Hnd Hsub Hcc. constructor; rel_fields; rewrite ?P; auto.
    - discriminate.
    - rewrite Hcc, Tk. reflexivity.
    - intros s. cbn [memN]. rewrite orb_true_iff, N.eqb_eq. intros [->|H]; [lia|]. apply R5 in H. lia.
    - intros j g u Hj. destruct (nth_error_upd _ _ _ _ _ _ Hi Hj) as [[<- E]|[Ne E]].
      + injection E as -> ->. constructor; cbn [open_of had_of post_run settled sessions started closing finished map snd is_nil negb].
        * intros s [<-|Hs]; [left; reflexivity|right]. apply (tr_sess _ _ _ Ti). exact Hs.
        * exact Hm.
        * rewrite Hclo. discriminate.
        * discriminate.
      + pose proof (Hother _ _ _ E Ne) as Hne. eapply TRel_other; [exact Hne| | | | |exact (R6 _ _ _ E)]; cbn [sessions started closing finished]; auto.
        intros s Hs. right; exact Hs.
    - intros d s [E|Hin].
      + injection E as <- <-. exists i, f, (TRunning r ((c, d_next st) :: conns)).
        rewrite (nth_error_upd_eq _ _ _ _ Hi). cbn. auto.
      + destruct (R7 _ _ Hin) as [j [g [u [Hj [E1 E2]]]]]. destruct (Nat.eq_dec i j) as [<-|Ne].
        * rewrite Hi in Hj. injection Hj as <- <-. exists i, f, (TRunning r ((c, d_next st) :: conns)).
          rewrite (nth_error_upd_eq _ _ _ _ Hi). cbn [open_of map snd In] in *. auto.
        * exists j, g, u. rewrite nth_error_upd_ne by exact Ne. auto.
    - constructor; assumption. }
  destruct (mem (f_db f) (started p)) eqn:Hs.
  - eexists. split; [reflexivity|]. apply Common; auto.
    + rewrite R4. exact Tk.
  - rewrite R4, Tk. cbn [orb].
    assert (Hlt : (length (inflight p) < c_jobs cf)%nat).
    { pose proof (filter_length_lt busy (fun q => active (snd q)) (d_tasks st) i _ busy_active Hi) as L.
      unfold busy in L at 1. cbn [snd had_of] in L. rewrite <- Hst in L. cbn [andb active] in L.
      specialize (L eq_refl eq_refl). pose proof (w_jobs _ _ D) as J. unfold n_active in J. lia. }
    apply Nat.ltb_lt in Hlt. cbn [jobs]. rewrite Hlt. cbn [negb].
    eexists. split; [reflexivity|]. apply Common; auto.
    + rewrite mem_snoc, str_eqb_refl. apply orb_true_r.
    + intros d Hd. rewrite mem_snoc. destruct (str_eqb_spec d (f_db f)); [congruence|apply orb_false_r].
    + apply NoDup_snoc; [exact R9|]. apply mem_false_In. exact Hs.
    + intros d Hd. apply in_app_iff in Hd. destruct Hd as [Hd|[<-|[]]]; auto.
Qed.

(* ------------------------------------------------------------------------- *)
(* a statement is sent                                                         *)
Lemma sim_sql_guard cf st p i f rest conns c s K :
  Rel cf st p -> d_phase st = DStream ->
  nth_error (d_tasks st) i = Some (f, TRunning rest conns) -> lookupN c conns = Some s ->
  pstep (mkParams (c_jobs cf) K) p (PSql (f_db f) s) = Some p.
Proof.
  intros R P Hi L.
  pose proof (closing_false _ _ _ _ _ _ _ R Hi) as Hclo.
  pose proof (tr_sess _ _ _ (r_task _ _ _ R _ _ _ Hi) s (lookupN_In _ _ _ L)) as Hs.
  apply mem_sess_In in Hs.
  unfold pstep. rewrite (r_closed _ _ _ R), P, Hs, Hclo. reflexivity.
Qed.

(* ------------------------------------------------------------------------- *)
(* a session is closed                                                         *)
Lemma sim_close cf st p i f r open had s K :
  wf_cfg cf -> DInv cf st -> Rel cf st p -> d_phase st = DStream ->
  nth_error (d_tasks st) i = Some (f, TClosing r open had) -> In s open ->
  exists p', pstep (mkParams (c_jobs cf) K) p (PClose (f_db f) s) = Some p' /\
             Rel cf (set_tasks st (upd i (f, TClosing r (removeN s open) had) (d_tasks st)) (d_next st)) p'.
Proof.
  intros Wf D R P Hi Hs.
  pose proof (r_task _ _ _ R _ _ _ Hi) as Ti.
  pose proof (w_sid _ _ D _ _ _ Hi) as [Sa [Sb Sc]]. cbn [open_of had_of] in Sa, Sb, Sc.
  destruct (removeN_NoDup s open Sa) as [Sa' Sn].
  assert (Hother : forall j g u, nth_error (d_tasks st) j = Some (g, u) -> i <> j -> f_db g <> f_db f).
  { intros j g u Hj Ne E. apply Ne.
    eapply tasks_db_index; [exact Wf|exact (w_files _ _ D)|exact Hi|exact Hj|symmetry; exact E]. }
  destruct R as [R1 R2 R3 R4 R5 R6 R7 R8 R9 R10 R11 R12]. rewrite P in *.
  pose proof (tr_sess _ _ _ Ti s Hs) as Hin. cbn [open_of] in Hin.
  pose proof Hin as Hm. apply mem_sess_In in Hm.
  destruct (remove_sess_NoDup (f_db f, s) (sessions p) R8) as [Nd' Nin'].
  unfold pstep. rewrite R1, Hm.
  eexists. split; [reflexivity|].
  set (ss := remove_sess (f_db f, s) (sessions p)).
  constructor; rel_fields; rewrite ?P; auto.
  - intros j g u Hj. destruct (nth_error_upd _ _ _ _ _ _ Hi Hj) as [[<- E]|[Ne E]].
    + injection E as -> ->. constructor; cbn [open_of had_of post_run settled sessions started closing finished].
      * intros x Hx. apply remove_sess_other.
        -- apply (tr_sess _ _ _ Ti). cbn [open_of]. eapply removeN_In; exact Hx.
        -- intros E. injection E as ->. exact (Sn Hx).
      * exact (tr_started _ _ _ Ti).
      * reflexivity.
      * intros Hset Hhad.
        assert (Ho : has_open (f_db f) ss = false).
        { apply has_open_false. intros x Hx. unfold ss in Hx.
          pose proof (remove_sess_In _ _ _ Hx) as Hx0.
          destruct (R7 _ _ Hx0) as [j [g [u [Hj2 [E1 E2]]]]].
          assert (i = j) by (eapply tasks_db_index; [exact Wf|exact (w_files _ _ D)|exact Hi|exact Hj2|symmetry; exact E1]).
          subst j. rewrite Hi in Hj2. injection Hj2 as <- <-. cbn [open_of] in E2.
          assert (x <> s). { intros ->. exact (Nin' Hx). }
          pose proof (removeN_other s x open E2 H) as Hr.
          destruct (removeN s open); [destruct Hr|discriminate Hset]. }
        rewrite Ho. cbn [mem]. rewrite str_eqb_refl. reflexivity.
    + pose proof (Hother _ _ _ E Ne) as Hne.
      eapply TRel_other; [exact Hne| | | | |exact (R6 _ _ _ E)]; cbn [sessions started closing finished]; auto.
      * intros x Hx. apply remove_sess_other; [exact Hx|]. intros E'. injection E' as E' _. exact (Hne E').
      * destruct (mem (f_db f) (closing p)); [auto|]. rewrite mem_cons_other by exact Hne. auto.
      * destruct (has_open (f_db f) ss); [auto|]. rewrite mem_cons_other by exact Hne. auto.
  - intros d x Hx. pose proof (remove_sess_In _ _ _ Hx) as Hx0.
    destruct (R7 _ _ Hx0) as [j [g [u [Hj [E1 E2]]]]]. destruct (Nat.eq_dec i j) as [<-|Ne].
    + rewrite Hi in Hj. injection Hj as <- <-. exists i, f, (TClosing r (removeN s open) had).
      rewrite (nth_error_upd_eq _ _ _ _ Hi). cbn [open_of] in *. split; [reflexivity|]. split; [exact E1|].
      apply removeN_other; [exact E2|]. intros ->. subst d. exact (Nin' Hx).
    + exists j, g, u. rewrite nth_error_upd_ne by exact Ne. auto.
Qed.

(* ------------------------------------------------------------------------- *)
(* every transition is matched by the observer                                 *)
Lemma upd_same_task cf st p i f t st' :
  Rel cf st p -> d_phase st = DStream -> nth_error (d_tasks st) i = Some (f, t) ->
  d_phase st' = DStream -> d_tasks st' = upd i (f, t) (d_tasks st) -> d_next st' = d_next st -> d_token st' = d_token st ->
  Rel cf st' p.
Proof.
  intros R P Hi. eapply Rel_silent_gen; eauto.
Qed.

Lemma TRel_ext db t p p' :
  sessions p' = sessions p -> started p' = started p -> closing p' = closing p -> finished p' = finished p ->
  TRel db t p -> TRel db t p'.
Proof. intros E1 E2 E3 E4 [A B C D]. constructor; rewrite ?E1, ?E2, ?E3, ?E4; auto. Qed.

Lemma sim_trans cf st p st' evs K :
  wf_cfg cf -> DInv cf st -> Rel cf st p -> trans cf st st' evs -> Kok cf st' K ->
  exists p', prun (mkParams (c_jobs cf) K) p evs = Some p' /\ Rel cf st' p'.
Proof.
  intros Wf D R T HK. destruct T.
  - (* stutter *) exists p. split; [reflexivity|exact R].
  - (* create done *) exists p. split; [reflexivity|].
    destruct R as [R1 R2 R3 R4 R5 R6 R7 R8 R9 R10 R11 R12]. rewrite H in *.
    constructor; rel_fields; auto. rewrite app_nil_r in R3. exact R3.
  - (* create *)
    pose proof (w_phase _ _ D) as Wp. rewrite H in Wp. destruct Wp as [Wa _].
    destruct R as [R1 R2 R3 R4 R5 R6 R7 R8 R9 R10 R11 R12]. rewrite H in *.
    assert (Hdrop : dropping p = false) by (destruct (dropping p); [destruct (R2 eq_refl)|reflexivity]).
    assert (Hnew : mem db (created p) = false).
    { apply mem_false_In. unfold wf_cfg in Wf. rewrite <- R3 in Wf. eapply NoDup_app_mid; exact Wf. }
    assert (Hno : forall d, ~ In d (started p)).
    { intros d Hd.
      destruct (db_task cf st d (w_files _ _ D) (R10 _ Hd)) as [i [f [t [Hi Ed]]]].
      pose proof (tr_started _ _ _ (R6 _ _ _ Hi)) as Hs. rewrite Ed in Hs.
      apply mem_In in Hd. rewrite Hd in Hs.
      pose proof (forallb_nth _ _ _ _ Wa Hi) as Hidle. cbn [snd] in Hidle.
      destruct t; cbn in Hidle, Hs; discriminate. }
    assert (Hst : started p = []).
    { destruct (started p) as [|d l]; [reflexivity|]. destruct (Hno d (or_introl eq_refl)). }
    cbn [prun]. unfold pstep. rewrite R1, Hdrop, Hnew, Hst. cbn [orb].
    eexists. split; [reflexivity|].
    constructor; rel_fields; rewrite ?H; auto; try discriminate.
    + rewrite <- app_assoc. exact R3.
    + intros i f t Hi. destruct (R6 _ _ _ Hi) as [A B C E]. rewrite Hst in B. constructor; auto.
    + constructor.
    + intros d [].
  - (* spawn *) exists p. split; [reflexivity|].
    eapply Rel_silent_task; eauto; cbn; try discriminate; auto.
  - (* stream done *) exists p. split; [reflexivity|].
    pose proof R as R0.
    destruct R as [R1 R2 R3 R4 R5 R6 R7 R8 R9 R10 R11 R12]. rewrite H in *.
    assert (Hinf : inflight p = []).
    { unfold inflight. apply filter_nil. intros d Hd.
      destruct (db_task cf st d (w_files _ _ D) (R10 _ Hd)) as [i [f [t [Hi Ed]]]].
      pose proof (R6 _ _ _ Hi) as Ti. rewrite Ed in Ti.
      pose proof (forallb_nth _ _ _ _ H0 Hi) as Hr. cbn [snd] in Hr.
      destruct t; try discriminate Hr.
      apply mem_In in Hd. rewrite (tr_started _ _ _ Ti) in Hd.
      rewrite (tr_fin _ _ _ Ti eq_refl Hd). reflexivity. }
    destruct (d_refused st) eqn:Rf; constructor; rel_fields; auto.
    + intros d Hd. right. unfold kept_of. cbn [set_phase d_refused]. rewrite Rf. apply mem_In; exact Hd.
    + exists []. split; [reflexivity|]. split; [|intros d []]. intros d Hd. rewrite R11 in Hd. discriminate Hd.
  - (* drop done *) exists p. split; [reflexivity|].
    pose proof (w_phase _ _ D) as Wp. rewrite H in Wp. destruct Wp as [_ [_ Wr]].
    destruct R as [R1 R2 R3 R4 R5 R6 R7 R8 R9 R10 R11 R12]. rewrite H in *.
    constructor; rel_fields; auto.
    destruct R11 as [pre [E [A B]]]. rewrite app_nil_r in E. subst pre.
    intros d Hd. destruct (B d Hd) as [Hb|Hb]; [left; exact Hb|right].
    unfold kept_of. cbn [set_phase d_refused d_failed_db]. rewrite Wr. apply andb_true_iff in Hb. destruct Hb as [-> Hb]. exact Hb.
  - (* drop skipped: kept *) exists p. split; [reflexivity|].
    destruct R as [R1 R2 R3 R4 R5 R6 R7 R8 R9 R10 R11 R12]. rewrite H in *.
    constructor; rel_fields; auto.
    destruct R11 as [pre [E [A B]]]. exists (pre ++ [db]). split; [rewrite <- app_assoc; exact E|]. split.
    + intros d Hd. apply in_or_app. left. apply A; exact Hd.
    + intros d Hd. apply in_app_iff in Hd. destruct Hd as [Hd|[<-|[]]]; [apply B; exact Hd|right; exact H0].
  - (* drop *)
    pose proof (w_phase _ _ D) as Wp. rewrite H in Wp. destruct Wp as [_ [_ Wr]].
    destruct R as [R1 R2 R3 R4 R5 R6 R7 R8 R9 R10 R11 R12]. rewrite H in *.
    destruct R11 as [pre [E [A B]]].
    assert (Hcr : mem db (created p) = true).
    { rewrite R3, E. apply mem_In. apply in_or_app. right. left. reflexivity. }
    assert (Hnd : mem db (dropped p) = false).
    { destruct (mem db (dropped p)) eqn:M; [|reflexivity]. exfalso.
      unfold wf_cfg in Wf. rewrite E in Wf. exact (NoDup_app_mid _ _ _ Wf (A _ M)). }
    assert (HKd : mem db K = false).
    { unfold Kok in HK. cbn [set_phase d_phase] in HK. rewrite HK. unfold kept_of.
      cbn [set_phase d_refused d_failed_db]. rewrite Wr.
      destruct (c_keep cf); [exact H0|reflexivity]. }
    cbn [prun]. unfold pstep. rewrite R1, R12, Hcr, Hnd. cbn [kept negb orb]. rewrite HKd.
    eexists. split; [reflexivity|].
    constructor; rel_fields; auto.
    + intros i f t Hi. eapply TRel_ext; [| | | |exact (R6 _ _ _ Hi)]; reflexivity.
    + exists (pre ++ [db]). split; [rewrite <- app_assoc; exact E|]. split.
      * intros d. cbn [mem]. rewrite orb_true_iff, str_eqb_eq. intros [->|Hd]; apply in_or_app; [right; left; reflexivity|left; auto].
      * intros d Hd. apply in_app_iff in Hd. destruct Hd as [Hd|[<-|[]]].
        -- destruct (B d Hd) as [Hb|Hb]; [left|right; exact Hb]. cbn [mem]. rewrite Hb. apply orb_true_r.
        -- left. cbn [mem]. rewrite str_eqb_refl. reflexivity.
  - (* management connection closed *)
    destruct R as [R1 R2 R3 R4 R5 R6 R7 R8 R9 R10 R11 R12]. rewrite H in *.
    assert (Hall : forallb (fun db => mem db (dropped p) || mem db K) (created p) = true).
    { apply forallb_forall. intros d Hd. rewrite R3 in Hd. unfold Kok in HK. cbn [set_phase d_phase] in HK.
      rewrite HK. unfold kept_of in *. cbn [set_phase d_refused d_failed_db].
      destruct (R11 d Hd) as [Hx|Hx]; rewrite Hx; [reflexivity|apply orb_true_r]. }
    cbn [prun]. unfold pstep. rewrite R1, R12. cbn [kept]. rewrite Hall.
    eexists. split; [reflexivity|].
    constructor; rel_fields; auto.
    intros i f t Hi. eapply TRel_ext; [| | | |exact (R6 _ _ _ Hi)]; reflexivity.
  - (* a task moves *)
    destruct H1.
    + exists p. split; [reflexivity|]. eapply upd_same_task; eauto.
    + exists p. split; [reflexivity|]. eapply Rel_silent_task; eauto; cbn; try discriminate; auto.
    + exists p. split; [reflexivity|]. eapply Rel_silent_task; eauto; cbn; try discriminate; auto.
    + exists p. split; [reflexivity|]. eapply Rel_silent_task; eauto; cbn; try discriminate; auto.
    + exists p. split; [reflexivity|]. eapply Rel_silent_task; eauto; cbn [open_of had_of post_run settled]; try discriminate; auto.
      intros S _. right. split; [|reflexivity]. destruct (map snd conns); [reflexivity|discriminate S].
    + exists p. split; [reflexivity|]. eapply Rel_silent_task; eauto; cbn [open_of had_of post_run settled]; try discriminate; auto.
      intros S _. right. split; [|reflexivity]. destruct (map snd conns); [reflexivity|discriminate S].
    + exists p. split; [reflexivity|]. eapply Rel_silent_task; eauto; cbn [open_of had_of post_run settled]; try discriminate; auto.
      intros S _. right. split; [|reflexivity]. destruct (map snd conns); [reflexivity|discriminate S].
    + cbn [prun]. destruct (sim_connect cf st p i f c r conns K Wf D R H H1 H0) as [p' [Hp HR]].
      rewrite Hp. exists p'. split; [reflexivity|exact HR].
    + cbn [prun]. rewrite (sim_sql_guard cf st p i f _ conns c s K R H H0 H2).
      exists p. split; [reflexivity|]. eapply Rel_silent_task; eauto; cbn; try discriminate; auto.
    + exists p. split; [reflexivity|]. eapply Rel_silent_task; eauto; cbn; try discriminate; auto.
    + exists p. split; [reflexivity|]. eapply Rel_silent_task; eauto; cbn; try discriminate; auto.
    + cbn [prun]. destruct (sim_close cf st p i f r open had s K Wf D R H H0 H1) as [p' [Hp HR]].
      rewrite Hp. exists p'. split; [reflexivity|exact HR].
  - (* a result is yielded *)
    assert (Hcl : closed_ p = false) by (rewrite (r_closed _ _ _ R), H; reflexivity).
    unfold report_result.
    assert (Base : forall st1, d_phase st1 = DStream -> d_tasks st1 = upd i (f, TReported had) (d_tasks st) ->
                               d_next st1 = d_next st -> d_token st1 = d_token st -> Rel cf st1 p).
    { intros st1 A1 A2 A3 A4. eapply (Rel_silent_gen cf st p i f (TDone r had) (TReported had)); eauto. }
    destruct r as [|rf| |]; cbn [fst snd].
    + exists p. split; [reflexivity|]. apply Base; reflexivity.
    + destruct (c_ff cf || (d_refused st || rf)) eqn:Cn.
      * cbn [prun]. unfold pstep. rewrite Hcl. eexists. split; [reflexivity|].
        rewrite orb_true_r.
        pose proof (Rel_cancel cf _ p (d_ctrlc st) (Base (mkDst DStream (upd i (f, TReported had) (d_tasks st)) (d_token st) (d_ctrlc st)
                      (f_db f :: d_failed_db st) (d_refused st || rf) (d_reported st ++ [(f_db f, RErr rf)]) (d_next st))
                      eq_refl eq_refl eq_refl eq_refl) Hcl) as RC.
        exact RC.
      * exists p. split; [reflexivity|]. rewrite orb_false_r. apply Base; reflexivity.
    + exists p. split; [reflexivity|]. apply Base; reflexivity.
    + exists p. split; [reflexivity|]. apply Base; reflexivity.
  - (* Ctrl-C *)
    assert (Hcl : closed_ p = false).
    { rewrite (r_closed _ _ _ R). destruct (d_phase st); try reflexivity. congruence. }
    cbn [prun]. unfold pstep. rewrite Hcl. eexists. split; [reflexivity|].
    apply Rel_cancel; assumption.
Qed.

Lemma Rel_init cf : Rel cf (dst0 cf) pst0.
Proof.
  constructor; cbn [dst0 pst0 d_phase d_tasks d_token d_next created sessions seen started closing finished dropped
                    cancelled_ dropping closed_ app]; auto; try discriminate.
  - intros i f t Hi. apply nth_error_In in Hi. apply in_map_iff in Hi. destruct Hi as [g [E _]].
    injection E as _ <-. constructor; cbn; auto; try discriminate.
  - intros db s [].
  - constructor.
  - constructor.
  - intros d [].
Qed.

Lemma sim_reach cf st st' tr : reach cf st st' tr ->
  forall p K, wf_cfg cf -> DInv cf st -> Rel cf st p -> Kok cf st' K ->
  exists p', prun (mkParams (c_jobs cf) K) p tr = Some p' /\ Rel cf st' p'.
Proof.
  intros Rc; induction Rc as [st|st st1 st2 e1 e2 T Rc IH]; intros p K Wf D R HK.
  - exists p. split; [reflexivity|exact R].
  - destruct (sim_trans cf st p st1 e1 K Wf D R T (Kok_back_reach _ _ _ _ _ Rc HK)) as [p1 [H1 R1]].
    destruct (IH p1 K Wf (DInv_trans _ _ _ _ D T) R1 HK) as [p2 [H2 R2]].
    exists p2. split; [|exact R2].
    clear - H1 H2. revert p H1. induction e1 as [|e l IHl]; intros p H1; cbn [app prun] in *.
    + injection H1 as <-. exact H2.
    + destruct (pstep _ p e); [|discriminate]. apply IHl; exact H1.
Qed.

(* Whatever the scheduler does, whenever Ctrl-C arrives and in whichever order sessions are
   closed: the trace emitted so far is a trace of the observer automaton. *)
Theorem driver_refines_observer cf sched st tr :
  wf_cfg cf -> drun cf (dst0 cf) sched = (st, tr) ->
  exists p, prun (mkParams (c_jobs cf) (kept_of cf st)) pst0 tr = Some p /\ Rel cf st p.
Proof.
  intros Wf H. apply drun_reach in H.
  apply (sim_reach cf _ _ _ H pst0 (kept_of cf st) Wf (DInv_init cf) (Rel_init cf)).
  unfold Kok. destruct (d_phase st); auto.
Qed.

Corollary driver_accepted cf sched st tr :
  wf_cfg cf -> drun cf (dst0 cf) sched = (st, tr) -> accepts (mkParams (c_jobs cf) (kept_of cf st)) tr = true.
Proof.
  intros Wf H. destruct (driver_refines_observer cf sched st tr Wf H) as [p [Hp _]].
  unfold accepts. rewrite Hp. reflexivity.
Qed.

(* when the driver has finished, the automaton has seen the management connection close:
   the end-of-run theorems of ParProofs (all_released, dropped_exactly_once) apply *)
Corollary driver_end_closed cf sched st tr :
  wf_cfg cf -> drun cf (dst0 cf) sched = (st, tr) -> d_phase st = DEnd ->
  exists p, prun (mkParams (c_jobs cf) (kept_of cf st)) pst0 tr = Some p /\ closed_ p = true.
Proof.
  intros Wf H E. destruct (driver_refines_observer cf sched st tr Wf H) as [p [Hp R]].
  exists p. split; [exact Hp|]. rewrite (r_closed _ _ _ R), E. reflexivity.
Qed.

(* the clauses of C17 for a finished run of the driver, with the kept databases spelled out: every file's database was created,
   every session opened was closed, and the database was dropped exactly once - unless it is kept (a failed file under
   --keep-db-on-failure; every database after a refused connection), in which case it was not dropped at all *)
Theorem driver_finished_run_cleans_up cf sched st tr :
  wf_cfg cf -> drun cf (dst0 cf) sched = (st, tr) -> d_phase st = DEnd ->
  (forall db s, In (PConnect db s) tr -> In (PClose db s) tr) /\
  forall f, In f (c_files cf) ->
    In (PCreate (f_db f)) tr /\
    ((mem (f_db f) (kept_of cf st) = true /\ ~ In (PDrop (f_db f)) tr) \/
     (mem (f_db f) (kept_of cf st) = false /\ count_occ pev_eq_dec tr (PDrop (f_db f)) = 1%nat)).
Proof.
  intros Wf H E. destruct (driver_refines_observer cf sched st tr Wf H) as [p [Hp R]].
  assert (Hc : closed_ p = true) by (rewrite (r_closed _ _ _ R), E; reflexivity).
  split.
  - exact (proj2 (all_released _ _ _ Hp Hc)).
  - intros f Hf.
    assert (Hcr : In (PCreate (f_db f)) tr).
    { apply (i_created _ _ _ (Inv_reach _ _ _ Hp)). pose proof (r_created _ _ _ R) as Rc. rewrite E in Rc. rewrite Rc.
      apply mem_In. unfold dbs_of. apply in_map. exact Hf. }
    split; [exact Hcr|]. exact (dropped_exactly_once _ _ _ Hp Hc _ Hcr).
Qed.

(* at every point of every run of the driver: at most [jobs] files have sessions open, and a database with an open session
   belongs to one of them (C17_bounded_concurrency, of the driver itself) *)
Corollary driver_files_in_flight_bounded cf sched st tr :
  wf_cfg cf -> drun cf (dst0 cf) sched = (st, tr) ->
  exists p, prun (mkParams (c_jobs cf) (kept_of cf st)) pst0 tr = Some p /\
            (length (inflight p) <= c_jobs cf)%nat /\
            (forall db, has_open db (sessions p) = true -> In db (inflight p)).
Proof.
  intros Wf H. destruct (driver_refines_observer cf sched st tr Wf H) as [p [Hp _]].
  exists p. split; [exact Hp|]. exact (bounded_concurrency _ _ _ Hp).
Qed.
