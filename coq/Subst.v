(* Subst.v — L2 model of substitution.rs and of the `subst` crate 0.3.7 (template parser
   and expander) as used by Runner::may_substitute.  The crate works on bytes; every
   delimiter is ASCII, so the model works on code points.  Outcome: text, error message
   (the Display text of subst::Error), or Panic (Variable::parse indexes source[finger+1]
   without a bound check: a `$` that is the last character of the text it parses). *)
From SLT Require Export Base Text.
Open Scope N_scope.

Inductive part :=
| PLit (s : str)
| PEsc (c : N)
| PVar (name : str) (default : option (list part)).

Inductive terr :=
| EInvalidEscape (c : option N)
| EMissingName
| EUnexpected (c : N)
| EMissingBrace
| EPanic.

Definition is_name_char (c : N) : bool :=
  ((48 <=? c) && (c <=? 57)) || ((65 <=? c) && (c <=? 90)) || ((97 <=? c) && (c <=? 122)) || (c =? 95).

Fixpoint take_while (p : N -> bool) (s : str) : str * str :=
  match s with
  | [] => ([], [])
  | c :: r => if p c then let '(a, b) := take_while p r in (c :: a, b) else ([], s)
  end.

(* find_closing_brace on the text that starts at the `$`: index of the `}` that closes the
   first `{`, skipping escaped characters; returns (inside, rest after the brace) relative to
   the text after the first `{` *)
Fixpoint close_brace (nested : nat) (s : str) (acc : str) : option (str * str) :=
  match s with
  | [] => None
  | 92 :: r => match r with
               | [] => None
               | c :: r' => close_brace nested r' (c :: 92 :: acc)
               end
  | 123 :: r => close_brace (S nested) r (123 :: acc)
  | 125 :: r => match nested with
                | S O => Some (frev acc, r)
                | S n => close_brace n r (125 :: acc)
                | O => None
                end
  | c :: r => close_brace nested r (c :: acc)
  end.

Definition is_special (c : N) : bool := (c =? 36) || (c =? 92).
Definition unescapable (c : N) : bool := (c =? 92) || (c =? 36) || (c =? 123) || (c =? 125) || (c =? 58).

(* Template::parse on a whole text *)
Fixpoint tparse (fuel : nat) (s : str) : terr + list part :=
  match fuel with
  | O => inl EPanic
  | S fuel' =>
      let '(litr, rest) := take_while (fun c => negb (is_special c)) s in
      let cons_lit := fun (ps : list part) => match litr with [] => ps | _ => PLit litr :: ps end in
      let continue := fun (p : part) (after : str) =>
        match tparse fuel' after with
        | inl e => inl e
        | inr ps => inr (cons_lit (p :: ps))
        end in
      match rest with
      | [] => inr (cons_lit [])
      | 92 :: r =>
          match r with
          | [] => inl (EInvalidEscape None)
          | c :: r' => if unescapable c then continue (PEsc c) r' else inl (EInvalidEscape (Some c))
          end
      | _ :: r =>      (* '$' *)
          match r with
          | [] => inl EPanic                                  (* source[finger + 1] out of bounds *)
          | 123 :: r2 =>
              match r2 with
              | [] => inl EMissingName
              | _ =>
                  let '(name, r3) := take_while is_name_char r2 in
                  match name with
                  | [] => inl EMissingName
                  | _ =>
                      match r3 with
                      | [] => inl EMissingBrace
                      | 125 :: after => continue (PVar name None) after
                      | 58 :: _ =>
                          (* the closing brace is searched from the `$`: the text after `${` at depth 1 *)
                          match close_brace 1 r2 [] with
                          | None => inl EMissingBrace
                          | Some (inside, after) =>
                              (* inside = name ++ ":" ++ default text *)
                              let dflt := skipn (S (length name)) inside in
                              match tparse fuel' dflt with
                              | inl e => inl e
                              | inr d => continue (PVar name (Some d)) after
                              end
                          end
                      | c :: _ => inl (EUnexpected c)
                      end
                  end
              end
          | _ =>
              let '(name, after) := take_while is_name_char r in
              match name with
              | [] => inl EMissingName
              | _ => continue (PVar name None) after
              end
          end
      end
  end.

Section Expand.
  Variable lookup : str -> option str.

  Fixpoint expand_parts (fuel : nat) (ps : list part) : str + str :=   (* inl = missing variable name *)
    match fuel with
    | O => inl []
    | S fuel' =>
        match ps with
        | [] => inr []
        | p :: rest =>
            let here := match p with
                        | PLit s => inr s
                        | PEsc c => inr [c]
                        | PVar name d =>
                            match lookup name with
                            | Some v => inr v
                            | None => match d with
                                      | Some dp => expand_parts fuel' dp
                                      | None => inl name
                                      end
                            end
                        end in
            match here with
            | inl n => inl n
            | inr a => match expand_parts fuel' rest with
                       | inl n => inl n
                       | inr b => inr (a ++ b)
                       end
            end
        end
    end.
End Expand.

(* Rust's `{:?}` of a char, for the characters the correspondence exercises *)
Definition char_debug (c : N) : str :=
  [39] ++ (if c =? 9 then lit "\t" else if c =? 10 then lit "\n" else if c =? 13 then lit "\r"
           else if c =? 92 then lit "\\" else if c =? 39 then lit "\'" else if c =? 0 then lit "\0" else [c]) ++ [39].

Definition terr_message (e : terr) : str :=
  match e with
  | EInvalidEscape (Some c) => lit "Invalid escape sequence: \" ++ [c]
  | EInvalidEscape None => lit "Invalid escape sequence: missing escape character"
  | EMissingName => lit "Missing variable name"
  | EUnexpected c => lit "Unexpected character: " ++ char_debug c ++ lit ", expected a closing brace ('}') or colon (':')"
  | EMissingBrace => lit "Missing closing brace"
  | EPanic => lit "<panic>"
  end.

Inductive sres := SText (s : str) | SErrMsg (m : str) | SPanicked.

Definition TESTDIR : str := lit "<TESTDIR>".
Definition NOW : str := lit "<NOW>".

Fixpoint assoc_str (k : str) (l : list (str * str)) : option str :=
  match l with
  | [] => None
  | (k', v) :: r => if str_eqb k k' then Some v else assoc_str k r
  end.

Section Substitution.
  (* process environment (oracle) *)
  Variable env : str -> option str.

  (* Substitution as VariableMap: specials, then runner-local variables, then the environment *)
  Definition var_lookup (locals : list (str * str)) (key : str) : option str :=
    if str_eqb key (lit "__TEST_DIR__") then Some TESTDIR
    else if str_eqb key (lit "__NOW__") then Some NOW
    else match assoc_str key locals with
         | Some v => Some v
         | None => env key
         end.

  (* subst::substitute *)
  Definition substitute_sql (locals : list (str * str)) (s : str) : sres :=
    match tparse (S (length s)) s with
    | inl EPanic => SPanicked
    | inl e => SErrMsg (lit "substitution failed: " ++ terr_message e)
    | inr ps =>
        match expand_parts (var_lookup locals) (S (length s)) ps with
        | inr t => SText t
        | inl name => SErrMsg (lit "substitution failed: No such variable: $" ++ name)
        end
    end.

  (* simple_replace: $__TEST_DIR__, $__NOW__, then every local in key order, each on the
     result of the previous replacement *)
  Definition substitute_cmd (locals : list (str * str)) (s : str) : str :=
    fold_left (fun acc kv => replace (36 :: fst kv) (snd kv) acc) locals
              (replace (lit "$__NOW__") NOW (replace (lit "$__TEST_DIR__") TESTDIR s)).
End Substitution.
