(* Parser.v — L2 model of parser.rs parse_inner / parse_lines / parse_multiple_result /
   parse_retry_config as a line-at-a-time state machine:  parse s = finish (fold step (lines s)).
   Outcome: records, a located parse error, or Panic (wherever Rust could panic). *)
From SLT Require Export Syntax Duration.
Open Scope N_scope.

Inductive pkind :=
| PUnexpectedToken | PUnexpectedEOF | PInvalidSortMode | PInvalidLine | PInvalidType
| PInvalidNumber | PInvalidErrorMessage | PDuplicatedErrorMessage | PInvalidRetryConfig
| PStatementHasResults | PInvalidDuration | PInvalidControl.

Definition pkind_code (k : pkind) : N :=
  match k with
  | PUnexpectedToken => 1 | PUnexpectedEOF => 2 | PInvalidSortMode => 3 | PInvalidLine => 4
  | PInvalidType => 5 | PInvalidNumber => 6 | PInvalidErrorMessage => 7
  | PDuplicatedErrorMessage => 8 | PInvalidRetryConfig => 9 | PStatementHasResults => 10
  | PInvalidDuration => 11 | PInvalidControl => 12
  end.

Inductive presult :=
| POk (rs : list record)
| PErr (k : pkind) (line : N)
| PPanic.

(* result of parsing something on a header line *)
Inductive hres (A : Type) := HOk (a : A) | HErr (k : pkind) | HPanic.
Arguments HOk {A} a. Arguments HErr {A} k. Arguments HPanic {A}.

Definition kw (x : string) (t : str) : bool := str_eqb t (lit x).

Definition DELIM : str := lit "----".

Section Parser.
  (* column type: ColumnType::from_char, returning the canonical character (to_char) *)
  Variable col_of_char : N -> option N.
  (* oracle: does regex::Regex::new accept the pattern? *)
  Variable re_valid : str -> bool.
  Variable file : str.
  Variable upper : option loc.

  Definition mkloc (line : N) : loc := Loc file line upper.

  (* parse_retry_config *)
  Definition parse_retry (toks : list str) : hres (option retry) :=
    match toks with
    | [] => HOk None
    | t0 :: r0 =>
        if negb (kw "retry" t0) then HErr PUnexpectedToken else
        match r0 with
        | [] => HErr PInvalidRetryConfig
        | a :: r1 =>
            match parse_u64 a with
            | None => HErr PInvalidNumber
            | Some n =>
                if n =? 0 then HErr PInvalidRetryConfig else
                match r1 with
                | [] => HErr PInvalidRetryConfig
                | b :: r2 =>
                    if negb (kw "backoff" b) then HErr PUnexpectedToken else
                    match r2 with
                    | [] => HErr PInvalidRetryConfig
                    | d :: r3 =>
                        match parse_duration d with
                        | DBad => HErr PInvalidDuration
                        | DPanic => HPanic
                        | DOk ns =>
                            match r3 with
                            | [] => HOk (Some (mkRetry n ns))
                            | _ => HErr PUnexpectedToken
                            end
                        end
                    end
                end
            end
        end
    end.

  (* ExpectedError::parse_inline_tokens / new_inline *)
  Definition parse_inline (toks : list str) : hres experr :=
    let re := join [32] toks in
    match re with
    | [] => HOk EEmpty
    | _ => if re_valid re then HOk (EInline re) else HErr PInvalidErrorMessage
    end.

  (* `error` followed by exactly `retry N backoff D` means: any error + retry clause *)
  Definition is_retry_shape (res : list str) : bool :=
    match res with
    | [a; _; c; _] => kw "retry" a && kw "backoff" c
    | _ => false
    end.

  Definition parse_sortmode (t : str) : option sortmode :=
    if kw "nosort" t then Some NoSort
    else if kw "rowsort" t then Some RowSort
    else if kw "valuesort" t then Some ValueSort
    else None.

  Fixpoint parse_types (s : str) : option str :=
    match s with
    | [] => Some []
    | c :: r => match col_of_char c with
                | None => None
                | Some c' => match parse_types r with Some r' => Some (c' :: r') | None => None end
                end
    end.

  (* what follows a statement/query/system header *)
  Inductive hdr :=
  | HStatement (e : stmt_expect) (r : option retry)
  | HQuery (e : query_expect) (r : option retry)
  | HSystem (r : option retry).

  Definition with_retry (toks : list str) (f : option retry -> hdr) : hres hdr :=
    match parse_retry toks with
    | HOk r => HOk (f r)
    | HErr k => HErr k
    | HPanic => HPanic
    end.

  Definition parse_statement_header (res : list str) : hres hdr :=
    match res with
    | t :: rest =>
        if kw "ok" t then with_retry rest (HStatement SOk)
        else if kw "error" t then
          if is_retry_shape rest then with_retry rest (HStatement (SError EEmpty))
          else match parse_inline rest with
               | HOk e => HOk (HStatement (SError e) None)
               | HErr k => HErr k
               | HPanic => HPanic
               end
        else if kw "count" t then
          match rest with
          | c :: rest' =>
              match parse_u64 c with
              | Some n => with_retry rest' (HStatement (SCount n))
              | None => HErr PInvalidNumber
              end
          | [] => HErr PInvalidLine
          end
        else HErr PInvalidLine
    | [] => HErr PInvalidLine
    end.

  Definition parse_query_header (res : list str) : hres hdr :=
    match res with
    | [] => HOk (HQuery (QResults [] None None []) None)
    | t :: rest =>
        if kw "error" t then
          if is_retry_shape rest then with_retry rest (HQuery (QError EEmpty))
          else match parse_inline rest with
               | HOk e => HOk (HQuery (QError e) None)
               | HErr k => HErr k
               | HPanic => HPanic
               end
        else
          match parse_types t with
          | None => HErr PInvalidType
          | Some types =>
              let sm := match rest with s :: _ => parse_sortmode s | [] => None end in
              let rest1 := match sm with Some _ => tl rest | None => rest end in
              let label := match rest1 with
                           | l :: _ => if kw "retry" l then None else Some l
                           | [] => None
                           end in
              let rest2 := match label with Some _ => tl rest1 | None => rest1 end in
              with_retry rest2 (HQuery (QResults types sm label []))
          end
    end.

  Inductive mode :=
  | Top
  | First (line : N) (h : hdr)                         (* parse_lines: the next line is taken unconditionally *)
  | Body (line : N) (h : hdr) (sql : str)              (* further lines of parse_lines *)
  | ResultLines (line : N) (h : hdr) (sql : str) (acc : list str)   (* query results until an empty line *)
  | MultiLine (line : N) (h : hdr) (sql : str) (acc : str) (pending_blank : bool). (* parse_multiple_result *)

  Record pstate := mkP {
    recs : list record;
    pconds : list cond;
    pconn : conn;
    pcomments : list str;
    lineno : N;         (* lines consumed so far *)
    pmode : mode
  }.

  Definition pstate0 : pstate := mkP [] [] CDefault [] 0 Top.

  Inductive sres := SNext (p : pstate) | SFail (k : pkind) (line : N) | SPanic.

  (* emit the record of a finished block; conditions are taken by statement/query/system,
     the connection only by statement/query *)
  Definition emit (p : pstate) (line : N) (h : hdr) (sql : str)
             (fin_q : list str) (fin_e : option experr) (fin_out : option str) : pstate :=
    let l := mkloc line in
    match h with
    | HStatement e r =>
        let e' := match fin_e, e with Some x, SError _ => SError x | _, _ => e end in
        mkP (recs p ++ [RStatement l (pconds p) (pconn p) sql e' r]) [] CDefault (pcomments p) (lineno p) Top
    | HQuery e r =>
        let e' := match e with
                  | QResults t s lb _ => QResults t s lb fin_q
                  | QError x => match fin_e with Some y => QError y | None => QError x end
                  end in
        mkP (recs p ++ [RQuery l (pconds p) (pconn p) sql e' r]) [] CDefault (pcomments p) (lineno p) Top
    | HSystem r =>
        mkP (recs p ++ [RSystem l (pconds p) sql fin_out r]) [] (pconn p) (pcomments p) (lineno p) Top
    end.

  Definition set_mode (p : pstate) (m : mode) : pstate :=
    mkP (recs p) (pconds p) (pconn p) (pcomments p) (lineno p) m.

  Definition push (p : pstate) (r : record) : pstate :=
    mkP (recs p ++ [r]) (pconds p) (pconn p) (pcomments p) (lineno p) Top.

  Definition experr_is_empty (e : experr) : bool := match e with EEmpty => true | _ => false end.

  (* the `----` line has been seen after the SQL block *)
  Definition on_delimiter (p : pstate) (line : N) (h : hdr) (sql : str) : sres :=
    match h with
    | HStatement (SError e) _ =>
        if experr_is_empty e then SNext (set_mode p (MultiLine line h sql [] false))
        else SFail PDuplicatedErrorMessage line
    | HStatement _ _ => SFail PStatementHasResults line
    | HQuery (QResults _ _ _ _) _ => SNext (set_mode p (ResultLines line h sql []))
    | HQuery (QError e) _ =>
        if experr_is_empty e then SNext (set_mode p (MultiLine line h sql [] false))
        else SFail PDuplicatedErrorMessage line
    | HSystem _ => SNext (set_mode p (MultiLine line h sql [] false))
    end.

  Definition finish_multi (p : pstate) (line : N) (h : hdr) (sql : str) (acc : str) : pstate :=
    let t := trim acc in
    match h with
    | HSystem _ => emit p line h sql [] None (Some t)
    | _ => emit p line h sql [] (Some (EMulti t)) None
    end.

  (* a top-level line that is not a comment *)
  Definition top_line (p : pstate) (n : N) (line : str) : sres :=
    match line with
    | [] => SNext (push p RNewline)
    | _ =>
      let l := mkloc n in
      match split_ws line with
      | [] => SNext p
      | t :: args =>
          if kw "include" t then
            match args with [f] => SNext (push p (RInclude l f)) | _ => SFail PInvalidLine n end
          else if kw "halt" t then
            match args with [] => SNext (push p (RHalt l)) | _ => SFail PInvalidLine n end
          else if kw "subtest" t then
            match args with [x] => SNext (push p (RSubtest l x)) | _ => SFail PInvalidLine n end
          else if kw "sleep" t then
            match args with
            | [d] => match parse_duration d with
                     | DOk ns => SNext (push p (RSleep l ns))
                     | DBad => SFail PInvalidDuration n
                     | DPanic => SPanic
                     end
            | _ => SFail PInvalidLine n
            end
          else if kw "skipif" t then
            match args with
            | [x] => SNext (mkP (recs p ++ [RCondition (SkipIf x)]) (pconds p ++ [SkipIf x]) (pconn p) (pcomments p) (lineno p) Top)
            | _ => SFail PInvalidLine n
            end
          else if kw "onlyif" t then
            match args with
            | [x] => SNext (mkP (recs p ++ [RCondition (OnlyIf x)]) (pconds p ++ [OnlyIf x]) (pconn p) (pcomments p) (lineno p) Top)
            | _ => SFail PInvalidLine n
            end
          else if kw "connection" t then
            match args with
            | [x] => let c := if kw "default" x then CDefault else CNamed x in
                     SNext (mkP (recs p ++ [RConnection c]) (pconds p) c (pcomments p) (lineno p) Top)
            | _ => SFail PInvalidLine n
            end
          else if kw "statement" t then
            match parse_statement_header args with
            | HOk h => SNext (set_mode p (First n h))
            | HErr k => SFail k n
            | HPanic => SPanic
            end
          else if kw "query" t then
            match parse_query_header args with
            | HOk h => SNext (set_mode p (First n h))
            | HErr k => SFail k n
            | HPanic => SPanic
            end
          else if kw "system" t then
            match args with
            | o :: rest =>
                if kw "ok" o then
                  match parse_retry rest with
                  | HOk r => SNext (set_mode p (First n (HSystem r)))
                  | HErr k => SFail k n
                  | HPanic => SPanic
                  end
                else SFail PInvalidLine n
            | [] => SFail PInvalidLine n
            end
          else if kw "control" t then
            match args with
            | [what; v] =>
                if kw "resultmode" what then
                  if kw "rowwise" v then SNext (push p (RControl (CtlResultMode RowWise)))
                  else if kw "valuewise" v then SNext (push p (RControl (CtlResultMode ValueWise)))
                  else SFail PInvalidSortMode n
                else if kw "sortmode" what then
                  match parse_sortmode v with
                  | Some m => SNext (push p (RControl (CtlSortMode m)))
                  | None => SFail PInvalidSortMode n
                  end
                else if kw "substitution" what then
                  if kw "on" v then SNext (push p (RControl (CtlSubstitution true)))
                  else if kw "off" v then SNext (push p (RControl (CtlSubstitution false)))
                  else SFail PInvalidControl n
                else SFail PInvalidLine n
            | _ => SFail PInvalidLine n
            end
          else if kw "hash-threshold" t then
            match args with
            | [x] => match parse_u64 x with
                     | Some v => SNext (push p (RHashThreshold l v))
                     | None => SFail PInvalidNumber n
                     end
            | _ => SFail PInvalidLine n
            end
          else SFail PInvalidLine n
      end
    end.

  Definition flush_comments (p : pstate) : pstate :=
    match pcomments p with
    | [] => p
    | cs => mkP (recs p ++ [RComment cs]) (pconds p) (pconn p) [] (lineno p) (pmode p)
    end.

  Definition step (p0 : pstate) (line : str) : sres :=
    let n := lineno p0 + 1 in
    let p := mkP (recs p0) (pconds p0) (pconn p0) (pcomments p0) n (pmode p0) in
    match pmode p with
    | Top =>
        match line with
        | 35 :: text =>       (* '#' in column 0 *)
            SNext (mkP (recs p) (pconds p) (pconn p) (pcomments p ++ [text]) n Top)
        | _ => top_line (flush_comments p) n line
        end
    | First hl h => SNext (set_mode p (Body hl h line))
    | Body hl h sql =>
        match line with
        | [] => SNext (emit p hl h sql [] None None)
        | _ => if str_eqb line DELIM then on_delimiter p hl h sql
               else SNext (set_mode p (Body hl h (sql ++ [10] ++ line)))
        end
    | ResultLines hl h sql acc =>
        match line with
        | [] => SNext (emit p hl h sql acc None None)
        | _ => SNext (set_mode p (ResultLines hl h sql (acc ++ [line])))
        end
    | MultiLine hl h sql acc pend =>
        match line with
        | [] => if pend then SNext (finish_multi p hl h sql acc)
                else SNext (set_mode p (MultiLine hl h sql acc true))
        | _ => let acc' := if pend then acc ++ [10] else acc in
               SNext (set_mode p (MultiLine hl h sql (acc' ++ line ++ [10]) false))
        end
    end.

  Fixpoint run_lines (p : pstate) (ls : list str) : sres :=
    match ls with
    | [] => SNext p
    | l :: r => match step p l with
                | SNext p' => run_lines p' r
                | e => e
                end
    end.

  (* end of input *)
  Definition finish (p : pstate) : presult :=
    match pmode p with
    | Top => POk (recs (flush_comments p))
    | First hl _ => PErr PUnexpectedEOF (hl + 1)
    | Body hl h sql => POk (recs (emit p hl h sql [] None None))
    | ResultLines hl h sql acc => POk (recs (emit p hl h sql acc None None))
    | MultiLine hl h sql acc _ => POk (recs (finish_multi p hl h sql acc))
    end.

  Definition parse_lines_list (ls : list str) : presult :=
    match run_lines pstate0 ls with
    | SNext p => finish p
    | SFail k n => PErr k n
    | SPanic => PPanic
    end.

  Definition parse (s : str) : presult := parse_lines_list (lines s).
End Parser.

(* DefaultColumnType::from_char / to_char, and the harness's two-letter type *)
Definition default_col (c : N) : option N :=
  if (c =? 84) || (c =? 73) || (c =? 82) then Some c else Some 63.
Definition two_col (c : N) : option N :=
  if (c =? 84) || (c =? 73) then Some c else None.
