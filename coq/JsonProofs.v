(* JsonProofs.v — the request direction of the external-engine protocol: the JSON string escaping
   of the SQL text is injective and is undone by the reference unescaper (C20, request side). *)
From SLT Require Import Base Framing.
Open Scope N_scope.

Definition small : list N :=
  [0;1;2;3;4;5;6;7;8;9;10;11;12;13;14;15;16;17;18;19;20;21;22;23;24;25;26;27;28;29;30;31].

Ltac pos_cases p :=
  first [ exfalso; lia | cbn; tauto
        | let q := fresh "q" in destruct p as [q|q|]; [pos_cases q | pos_cases q | first [exfalso; lia | cbn; tauto]] ].

Lemma small_in c : c < 32 -> List.In c small.
Proof.
  intros H. unfold small.
  destruct c as [|p]; [left; reflexivity|].
  pos_cases p.
Qed.

Ltac pos_split p n :=
  match n with
  | O => idtac
  | S ?m => let q := fresh "q" in destruct p as [q|q|]; [pos_split q m | pos_split q m | idtac]
  end.

Lemma unescape_plain c rest f : c <> 92 ->
  json_unescape (S f) (c :: rest) =
  if (c =? 34) || (c <? 32) then None
  else match json_unescape f rest with Some t => Some (c :: t) | None => None end.
Proof.
  intros H92. destruct c as [|p]; [reflexivity|].
  pos_split p 7%nat; try reflexivity.
  exfalso; apply H92; reflexivity.
Qed.

Lemma unescape_step c rest f :
  json_unescape (S f) (json_escape_char c ++ rest) =
  match json_unescape f rest with Some t => Some (c :: t) | None => None end.
Proof.
  destruct (N.ltb_spec c 32) as [Hlt|Hge].
  - apply small_in in Hlt. unfold small in Hlt.
    repeat (destruct Hlt as [<-|Hlt]; [cbn; destruct (json_unescape f rest); reflexivity|]).
    destruct Hlt.
  - unfold json_escape_char.
    destruct (N.eqb_spec c 34) as [->|H34]; [cbn; destruct (json_unescape f rest); reflexivity|].
    destruct (N.eqb_spec c 92) as [->|H92]; [cbn; destruct (json_unescape f rest); reflexivity|].
    destruct (N.eqb_spec c 8); [lia|]. destruct (N.eqb_spec c 12); [lia|].
    destruct (N.eqb_spec c 10); [lia|]. destruct (N.eqb_spec c 13); [lia|].
    destruct (N.eqb_spec c 9); [lia|].
    destruct (N.ltb_spec c 32); [lia|].
    cbn [app]. rewrite unescape_plain by assumption.
    destruct (N.eqb_spec c 34); [contradiction|]. destruct (N.ltb_spec c 32); [lia|]. reflexivity.
Qed.

Theorem unescape_escape s : forall f, (length s < f)%nat -> json_unescape f (json_escape s) = Some s.
Proof.
  induction s as [|c s IH]; intros f Hf.
  - destruct f; [inversion Hf|reflexivity].
  - destruct f as [|f]; [inversion Hf|].
    unfold json_escape. cbn [flat_map]. rewrite unescape_step.
    fold (json_escape s). rewrite IH; [reflexivity|cbn in Hf; lia].
Qed.

Corollary escape_injective a b : json_escape a = json_escape b -> a = b.
Proof.
  intros E.
  pose proof (unescape_escape a (S (length a + length b)) ltac:(lia)) as Ha.
  pose proof (unescape_escape b (S (length a + length b)) ltac:(lia)) as Hb.
  rewrite E in Ha. rewrite Ha in Hb. inversion Hb; reflexivity.
Qed.


Lemma request_injective a b : request_text a = request_text b -> a = b.
Proof.
  unfold request_text. intros E.
  apply app_inv_head in E.
  apply escape_injective.
  assert (L : length (json_escape a) = length (json_escape b)).
  { apply (f_equal (@length N)) in E. rewrite !app_length in E. lia. }
  revert E L. generalize (json_escape a) (json_escape b). intros x.
  induction x as [|c x IH]; intros y E L; destruct y as [|d y]; try discriminate; [reflexivity|].
  cbn in E. injection E as -> E. f_equal. apply IH; [exact E|cbn in L; lia].
Qed.
