(* Render.v — L1 for the parser (C03): abstract scripts (surface AST with every optional
   clause), concrete layouts, the renderer [render] and the elaboration [elab] (the records
   the format says were written, with the 1-based number of their first line). *)
From SLT Require Export Parser.
Open Scope N_scope.

(* ---- layout of one header line: blanks before, between and after the words *)
Record hlay := mkHlay { h_lead : str; h_seps : list str; h_trail : str }.

(* a blank string: Unicode white space other than LF / CR *)
Definition blank (b : str) : Prop := Forall (fun c => is_ws c = true /\ c <> 10 /\ c <> 13) b.
(* a word of a header line *)
Definition token (t : str) : Prop := t <> [] /\ Forall (fun c => is_ws c = false) t.

Fixpoint weave (toks seps : list str) : str :=
  match toks with
  | [] => []
  | t :: ts => match ts with
               | [] => t
               | _ => t ++ hd [32] seps ++ weave ts (tl seps)
               end
  end.

Definition header (h : hlay) (toks : list str) : str := h_lead h ++ weave toks (h_seps h) ++ h_trail h.

Definition wf_hlay (ntoks : nat) (h : hlay) : Prop :=
  blank (h_lead h) /\ blank (h_trail h) /\ S (length (h_seps h)) = ntoks /\
  Forall (fun b => blank b /\ b <> []) (h_seps h).

(* ---- clauses *)
(* a duration is written as one word; its meaning is what humantime assigns to it *)
Record rclause := mkRClause { rc_attempts : N; rc_dtok : str; rc_ns : N }.
Definition retry_words (r : option rclause) : list str :=
  match r with
  | None => []
  | Some c => [lit "retry"; dec (rc_attempts c); lit "backoff"; rc_dtok c]
  end.
Definition retry_of (r : option rclause) : option retry :=
  match r with None => None | Some c => Some (mkRetry (rc_attempts c) (rc_ns c)) end.
Definition wf_rclause (c : rclause) : Prop :=
  1 <= rc_attempts c <= U64MAX /\ token (rc_dtok c) /\ parse_duration (rc_dtok c) = DOk (rc_ns c).
Definition wf_retry (r : option rclause) : Prop := match r with None => True | Some c => wf_rclause c end.

(* a line of a file: no LF inside, and no CR at the end (it would be taken for part of a CRLF) *)
Definition line_ok (l : str) : Prop := ~ In 10 l /\ last l 0 <> 13.

(* multi-line text under `----`: what the parser returns trimmed *)
Definition wf_multi (t : list str) : Prop :=
  t <> [] /\ Forall line_ok t /\
  (forall c, hd_error (hd [] t) = Some c -> is_ws c = false) /\ hd [] t <> [] /\
  (last t [] <> [] /\ is_ws (last (last t []) 0) = false) /\
  (forall a b u v, t = u ++ a :: b :: v -> ~ (a = [] /\ b = [])).

(* SQL / command block: the first line is taken as is, later ones are non-empty and not `----` *)
Definition wf_block (ls : list str) : Prop :=
  ls <> [] /\ Forall line_ok ls /\ Forall (fun l => l <> [] /\ l <> DELIM) (tl ls).

Inductive sform :=
| SFOk | SFCount (n : N) | SFErrAny
| SFErrInline (words : list str)
| SFErrMulti (text : list str).

Inductive qform :=
| QFResults (types_word : str) (types : str) (sort : option sortmode) (label : option str)
            (has_results : bool) (results : list str)
| QFErrAny
| QFErrInline (words : list str)
| QFErrMulti (text : list str).

(* how a block ends *)
Inductive ending := EndBlank | EndEof.                      (* simple block *)
Inductive mending := MEndDouble | MEndOneEof | MEndEof.     (* multi-line text *)

Inductive item :=
| IComment (ls : list str)
| IBlank
| ISpace (ws : str)
| IInclude (h : hlay) (f : str)
| IHalt (h : hlay)
| ISubtest (h : hlay) (name : str)
| ISleep (h : hlay) (dtok : str) (ns : N)
| ICond (h : hlay) (c : cond)
| IConnection (h : hlay) (name : str)
| IControl (h : hlay) (c : control)
| IThreshold (h : hlay) (n : N)
| IStatement (h : hlay) (f : sform) (r : option rclause) (sql : list str) (e : ending) (me : mending)
| IQuery (h : hlay) (f : qform) (r : option rclause) (sql : list str) (e : ending) (me : mending)
| ISystem (h : hlay) (r : option rclause) (cmd : list str) (out : option (list str)) (e : ending) (me : mending).

Definition sort_word (m : sortmode) : str :=
  match m with NoSort => lit "nosort" | RowSort => lit "rowsort" | ValueSort => lit "valuesort" end.

Definition control_words (c : control) : list str :=
  match c with
  | CtlSortMode m => [lit "control"; lit "sortmode"; sort_word m]
  | CtlResultMode RowWise => [lit "control"; lit "resultmode"; lit "rowwise"]
  | CtlResultMode ValueWise => [lit "control"; lit "resultmode"; lit "valuewise"]
  | CtlSubstitution true => [lit "control"; lit "substitution"; lit "on"]
  | CtlSubstitution false => [lit "control"; lit "substitution"; lit "off"]
  end.

Definition sform_words (f : sform) : list str :=
  match f with
  | SFOk => [lit "statement"; lit "ok"]
  | SFCount n => [lit "statement"; lit "count"; dec n]
  | SFErrAny | SFErrMulti _ => [lit "statement"; lit "error"]
  | SFErrInline ws => lit "statement" :: lit "error" :: ws
  end.

Definition qform_words (f : qform) : list str :=
  match f with
  | QFResults tw _ s lb _ _ =>
      lit "query" :: tw :: (match s with Some m => [sort_word m] | None => [] end)
                        ++ (match lb with Some l => [l] | None => [] end)
  | QFErrAny | QFErrMulti _ => [lit "query"; lit "error"]
  | QFErrInline ws => lit "query" :: lit "error" :: ws
  end.

Definition end_lines (e : ending) : list str := match e with EndBlank => [[]] | EndEof => [] end.
Definition mend_lines (e : mending) : list str :=
  match e with MEndDouble => [[]; []] | MEndOneEof => [[]] | MEndEof => [] end.

Definition multi_lines (t : list str) (me : mending) : list str := DELIM :: t ++ mend_lines me.

Definition cond_words (c : cond) : list str :=
  match c with OnlyIf l => [lit "onlyif"; l] | SkipIf l => [lit "skipif"; l] end.

(* the physical lines of one item *)
Definition render_item (i : item) : list str :=
  match i with
  | IComment ls => map (fun l => 35 :: l) ls
  | IBlank => [[]]
  | ISpace ws => [ws]
  | IInclude h f => [header h [lit "include"; f]]
  | IHalt h => [header h [lit "halt"]]
  | ISubtest h n => [header h [lit "subtest"; n]]
  | ISleep h d _ => [header h [lit "sleep"; d]]
  | ICond h c => [header h (cond_words c)]
  | IConnection h n => [header h [lit "connection"; n]]
  | IControl h c => [header h (control_words c)]
  | IThreshold h n => [header h [lit "hash-threshold"; dec n]]
  | IStatement h f r sql e me =>
      header h (sform_words f ++ retry_words r) :: sql ++
      match f with SFErrMulti t => multi_lines t me | _ => end_lines e end
  | IQuery h f r sql e me =>
      header h (qform_words f ++ retry_words r) :: sql ++
      match f with
      | QFErrMulti t => multi_lines t me
      | QFResults _ _ _ _ true res => DELIM :: res ++ end_lines e
      | _ => end_lines e
      end
  | ISystem h r cmd out e me =>
      header h ([lit "system"; lit "ok"] ++ retry_words r) :: cmd ++
      match out with Some t => multi_lines t me | None => end_lines e end
  end.

Definition render_lines (a : list item) : list str := flat_map render_item a.

(* ---- from lines to text: every line is followed by LF or CRLF (chosen per line), the
   last one optionally by nothing *)
Definition eol (crlf : bool) : str := if crlf then [13; 10] else [10].
Fixpoint unlines (ls : list str) (eols : list bool) (final : bool) : str :=
  match ls with
  | [] => []
  | l :: r => match r with
              | [] => l ++ (if final then eol (hd false eols) else [])
              | _ => l ++ eol (hd false eols) ++ unlines r (tl eols) final
              end
  end.
Definition render (a : list item) (eols : list bool) (final : bool) : str :=
  unlines (render_lines a) eols final.

(* ---- elaboration: the records written, by one left-to-right scan *)
Definition nl : str := [10].
Definition text_of (ls : list str) : str := join nl ls.

Definition sform_expect (f : sform) : stmt_expect :=
  match f with
  | SFOk => SOk
  | SFCount n => SCount n
  | SFErrAny => SError EEmpty
  | SFErrInline ws => SError (EInline (join [32] ws))
  | SFErrMulti t => SError (EMulti (text_of t))
  end.

Definition qform_expect (f : qform) : query_expect :=
  match f with
  | QFResults _ types s lb has res => QResults types s lb (if has then res else [])
  | QFErrAny => QError EEmpty
  | QFErrInline ws => QError (EInline (join [32] ws))
  | QFErrMulti t => QError (EMulti (text_of t))
  end.

Record estate := mkE { e_conds : list cond; e_conn : conn; e_line : N }.

Definition conn_of_name (n : str) : conn := if kw "default" n then CDefault else CNamed n.

Section Elab.
  Variable file : str.
  Variable upper : option loc.
  Definition eloc (n : N) : loc := Loc file n upper.

  (* records produced by one item starting at line [e_line st + 1]; new scan state *)
  Definition elab_item (st : estate) (i : item) : list record * estate :=
    let n := e_line st + 1 in
    let adv := fun cs cn => mkE cs cn (e_line st + N.of_nat (length (render_item i))) in
    match i with
    | IComment ls => ([RComment ls], adv (e_conds st) (e_conn st))
    | IBlank => ([RNewline], adv (e_conds st) (e_conn st))
    | ISpace _ => ([], adv (e_conds st) (e_conn st))
    | IInclude _ f => ([RInclude (eloc n) f], adv (e_conds st) (e_conn st))
    | IHalt _ => ([RHalt (eloc n)], adv (e_conds st) (e_conn st))
    | ISubtest _ x => ([RSubtest (eloc n) x], adv (e_conds st) (e_conn st))
    | ISleep _ _ ns => ([RSleep (eloc n) ns], adv (e_conds st) (e_conn st))
    | ICond _ c => ([RCondition c], adv (e_conds st ++ [c]) (e_conn st))
    | IConnection _ x => ([RConnection (conn_of_name x)], adv (e_conds st) (conn_of_name x))
    | IControl _ c => ([RControl c], adv (e_conds st) (e_conn st))
    | IThreshold _ v => ([RHashThreshold (eloc n) v], adv (e_conds st) (e_conn st))
    | IStatement _ f r sql _ _ =>
        ([RStatement (eloc n) (e_conds st) (e_conn st) (text_of sql) (sform_expect f) (retry_of r)], adv [] CDefault)
    | IQuery _ f r sql _ _ =>
        ([RQuery (eloc n) (e_conds st) (e_conn st) (text_of sql) (qform_expect f) (retry_of r)], adv [] CDefault)
    | ISystem _ r cmd out _ _ =>
        ([RSystem (eloc n) (e_conds st) (text_of cmd) (option_map text_of out) (retry_of r)], adv [] (e_conn st))
    end.

  Fixpoint elab_from (st : estate) (a : list item) : list record :=
    match a with
    | [] => []
    | i :: r => let '(rs, st') := elab_item st i in rs ++ elab_from st' r
    end.

  Definition elab (a : list item) : list record := elab_from (mkE [] CDefault 0) a.
End Elab.

(* ---- well-formedness: what the format can express *)
Section WF.
  Variable col_of_char : N -> option N.
  Variable re_valid : str -> bool.

  Definition wf_inline (ws : list str) : Prop :=
    ws <> [] /\ Forall token ws /\ is_retry_shape ws = false /\ re_valid (join [32] ws) = true.

  Definition wf_sform (f : sform) (r : option rclause) : Prop :=
    match f with
    | SFCount n => n <= U64MAX
    | SFErrInline ws => wf_inline ws /\ r = None
    | SFErrMulti t => wf_multi t
    | _ => True
    end.

  Definition wf_qform (f : qform) (r : option rclause) : Prop :=
    match f with
    | QFResults tw types s lb has res =>
        token tw /\ kw "error" tw = false /\ parse_types col_of_char tw = Some types /\
        match lb with
        | Some l => token l /\ kw "retry" l = false /\ (s = None -> parse_sortmode l = None)
        | None => True
        end /\
        (s = None -> lb = None -> match r with Some _ => True | None => True end) /\
        Forall (fun l => line_ok l /\ l <> []) res
    | QFErrInline ws => wf_inline ws /\ r = None
    | QFErrMulti t => wf_multi t
    | QFErrAny => True
    end.

  Definition is_multi_item (i : item) : bool :=
    match i with
    | IStatement _ (SFErrMulti _) _ _ _ _ | IQuery _ (QFErrMulti _) _ _ _ _ | ISystem _ _ _ (Some _) _ _ => true
    | _ => false
    end.

  (* [lastp]: is this the last item of the script (only then may a block end at EOF) *)
  Definition wf_item (lastp : bool) (i : item) : Prop :=
    match i with
    | IComment ls => ls <> [] /\ Forall line_ok ls
    | IBlank => True
    | ISpace ws => ws <> [] /\ blank ws /\ line_ok ws
    | IInclude h f => wf_hlay 2 h /\ token f
    | IHalt h => wf_hlay 1 h
    | ISubtest h x => wf_hlay 2 h /\ token x
    | ISleep h d ns => wf_hlay 2 h /\ token d /\ parse_duration d = DOk ns
    | ICond h c => wf_hlay 2 h /\ token (match c with OnlyIf l | SkipIf l => l end)
    | IConnection h x => wf_hlay 2 h /\ token x
    | IControl h c => wf_hlay 3 h
    | IThreshold h v => wf_hlay 2 h /\ v <= U64MAX
    | IStatement h f r sql e me =>
        wf_hlay (length (sform_words f ++ retry_words r)) h /\ wf_sform f r /\ wf_retry r /\ wf_block sql /\
        (lastp = false -> e = EndBlank /\ me = MEndDouble)
    | IQuery h f r sql e me =>
        wf_hlay (length (qform_words f ++ retry_words r)) h /\ wf_qform f r /\ wf_retry r /\ wf_block sql /\
        (lastp = false -> e = EndBlank /\ me = MEndDouble)
    | ISystem h r cmd out e me =>
        wf_hlay (length ([lit "system"; lit "ok"] ++ retry_words r)) h /\ wf_retry r /\ wf_block cmd /\
        match out with Some t => wf_multi t | None => True end /\
        (lastp = false -> e = EndBlank /\ me = MEndDouble)
    end.

  Definition is_comment (i : item) : bool := match i with IComment _ => true | _ => false end.

  (* every item well-formed; EOF endings only on the last item; two comment blocks are never adjacent *)
  Fixpoint wf_script (a : list item) : Prop :=
    match a with
    | [] => True
    | i :: r =>
        wf_item (match r with [] => true | _ => false end) i /\
        (is_comment i = true -> match r with j :: _ => is_comment j = false | [] => True end) /\
        wf_script r
    end.
End WF.
