(* UpdateText8.v — the text layer of --override, part 8: the premises of UpdateText.v /
   UpdateText3.v / UpdateText7.v cannot be dropped (counterexamples, all by computation), the one place where a
   premise is stronger than needed, and a non-vacuity instance of the composed theorem.

   Every counterexample takes a record that the parser itself returns, one output that violates
   exactly one clause of [out_repr] (or one oracle law), lets [update_record] rewrite the record,
   and parses the text the updater writes for it ([rec_text r' = display r' ++ LF]): the result is
   a parse error or a script with a different meaning. *)
From Coq Require Import String.
From SLT Require Import Base Text Syntax Duration Parser Render TextProofs RenderProofs
     Unparse FsTrim FsProofs FormatSpec FormatProofs Runner Update UpdateSpec UpdateProofs
     UpdateFile1 UpdateFile3 UpdateFile UpdateText UpdateText2 UpdateText3 UpdateText5 UpdateText7.
Open Scope N_scope.

Definition F : str := lit "t.slt".
Definition rvT : str -> bool := fun _ => true.
Definition rvF : str -> bool := fun _ => false.
Definition rmF : str -> str -> bool := fun _ _ => false.
Definition SP : str := [32].
Definition src (l : list string) : str := flat_map (fun x => lit x ++ [10]) l.

Lemma rvT_escape_valid : escape_valid rvT.
Proof. intros s. reflexivity. Qed.

(* the records used below, as the parser returns them *)
Definition at1 : loc := Loc F 1 None.
Definition r_stmt : record := RStatement at1 [] CDefault (lit "select 1") SOk None.
Definition r_cnt : record := RStatement at1 [] CDefault (lit "select 1") (SCount 1) None.
Definition r_sys : record := RSystem at1 [] (lit "echo") (Some (lit "x")) None.
Definition r_q : record :=
  RQuery at1 [] CDefault (lit "select 1") (QResults (lit "I") (Some RowSort) None [lit "1"]) None.
Definition r_q2 : record :=
  RQuery at1 [] CDefault (lit "select 1") (QResults (lit "I") None None [lit "1"]) None.

Example records_are_parser_output :
  parse default_col rvF F None (src ["statement ok"; "select 1"]%string) = POk [r_stmt] /\
  parse default_col rvT F None (src ["statement count 1"; "select 1"]%string) = POk [r_cnt] /\
  parse default_col rvT F None (src ["system ok"; "echo"; "----"; "x"; ""]%string) = POk [r_sys] /\
  parse default_col rvT F None (src ["query I rowsort"; "select 1"; "----"; "1"; ""]%string) = POk [r_q] /\
  parse two_col rvT F None (src ["query I"; "select 1"; "----"; "1"; ""]%string) = POk [r_q2].
Proof. repeat split; vm_compute; reflexivity. Qed.

(* the outcome of one update followed by reading the written text back *)
Inductive outcome :=
| Unchanged
| ParseError (k : pkind) (line : N)
| OtherMeaning (written read : list record)
| SameMeaning.

Definition recs_eqb_meaning (a b : list record) : bool :=
  (* meanings compared through their canonical text: enough for the examples below *)
  match write_records (meaning a), write_records (meaning b) with
  | Some x, Some y => str_eqb x y
  | _, _ => false
  end.

Definition try_update (col : N -> option N) (rv : str -> bool) (strict : bool)
           (r : record) (o : routput) : option (record * presult) :=
  match update_record rmF SP strict r o with
  | Some r' => Some (r', parse col rv F None (rec_text r'))
  | None => None
  end.

(* ---- why the theorems speak of [reread r'] and not of r': the updater stores the actual stdout
   untrimmed, Display trims it; the untrimmed record is not parser output (the written one is) *)
Example rec_ok_needs_reread :
  exists r',
    update_record rmF SP false r_sys (OSystem (Some [104; 105; 10]) false) = Some r' /\
    ~ rec_ok default_col rvT r' /\ rec_ok default_col rvT (reread r').
Proof.
  eexists. split; [vm_compute; reflexivity|]. split.
  - intros (_ & [H|(_ & H & _)] & _); [discriminate H | vm_compute in H; discriminate H].
  - eapply (update_record_rec_ok default_col rvT rmF SP false default_col_stable rvT_escape_valid r_sys
              (OSystem (Some [104; 105; 10]) false)).
    + destruct records_are_parser_output as (_ & _ & H & _).
      assert (Hp : parsed_ok default_col rvT [r_sys]).
      { eapply (parse_parsed_ok default_col rvT F None default_col_stable); [|exact H].
        unfold no_trailing_cr. vm_compute. repeat constructor; discriminate. }
      destruct Hp as [Hp _]. inversion Hp; assumption.
    + vm_compute. reflexivity.
    + cbn [out_repr]. split; vm_compute; repeat split; try exact I;
        let H := fresh in intros H; decompose [and] H; congruence.
Qed.

(* ---- P1 [escape_valid]: a validity oracle that rejects the escaped message *)
Example escape_valid_needed :
  exists r',
    try_update default_col rvF false r_stmt (OStatement 0 (Some (lit "boom")))
    = Some (r', PErr PInvalidErrorMessage 1) /\
    r' = RStatement at1 [] CDefault (lit "select 1") (SError (EInline (lit "boom"))) None.
Proof. eexists. split; vm_compute; reflexivity. Qed.

(* ---- P2 [text_repr], two consecutive empty lines in an error message: the block ends at
   them and the rest of the message is read as script lines *)
Example text_repr_needed_blank_lines :
  exists r',
    try_update default_col rvT false r_stmt (OStatement 0 (Some [97; 10; 10; 10; 98]))
    = Some (r', PErr PInvalidLine 7) /\
    r' = RStatement at1 [] CDefault (lit "select 1") (SError (EMulti [97; 10; 10; 10; 98])) None.
Proof. eexists. split; vm_compute; reflexivity. Qed.

(* ---- P2, CR LF inside an error message: str::lines drops the CR, the message read back differs *)
Example text_repr_needed_crlf :
  exists r' R,
    try_update default_col rvT false r_stmt (OStatement 0 (Some [97; 13; 10; 98])) = Some (r', POk R) /\
    r' = RStatement at1 [] CDefault (lit "select 1") (SError (EMulti [97; 13; 10; 98])) None /\
    R = [RStatement at1 [] CDefault (lit "select 1") (SError (EMulti [97; 10; 98])) None] /\
    meaning R <> meaning [reread r'].
Proof.
  eexists _, _. split; [vm_compute; reflexivity|]. split; [reflexivity|]. split; [reflexivity|].
  vm_compute. intros H. discriminate H.
Qed.

(* ---- P2 for an expected stdout *)
Example text_repr_needed_stdout :
  exists r',
    try_update default_col rvT false r_sys (OSystem (Some [97; 10; 10; 10; 98]) false)
    = Some (r', PErr PInvalidLine 7).
Proof. eexists. vm_compute. reflexivity. Qed.

(* ---- P3 [row_repr], an empty value (one column): the empty line ends the results *)
Example row_repr_needed_nonempty :
  exists r',
    try_update default_col rvT false r_q (OQuery (lit "I") [[ [] ]; [lit "2"]] None)
    = Some (r', PErr PInvalidLine 5).
Proof. eexists. vm_compute. reflexivity. Qed.

(* ---- P3, a line feed inside a value: read back as two result lines *)
Example row_repr_needed_no_lf :
  exists r' R,
    try_update default_col rvT false r_q (OQuery (lit "I") [[ [97; 10; 98] ]] None) = Some (r', POk R) /\
    meaning R <> meaning [reread r'].
Proof. eexists _, _. split; [vm_compute; reflexivity|]. vm_compute. intros H. discriminate H. Qed.

(* ---- P3, a value ending in CR: the CR is taken for part of a CRLF line ending *)
Example row_repr_needed_no_final_cr :
  exists r' R,
    try_update default_col rvT false r_q (OQuery (lit "I") [[ [97; 13] ]] None) = Some (r', POk R) /\
    meaning R <> meaning [reread r'].
Proof. eexists _, _. split; [vm_compute; reflexivity|]. vm_compute. intros H. discriminate H. Qed.

(* ---- P4 [types_repr], no column at all but a sort mode in the header: `query  rowsort` is
   read as the column types `rowsort` *)
Example types_repr_needed_nonempty :
  exists r' R,
    try_update default_col rvT true r_q (OQuery [] [] None) = Some (r', POk R) /\
    r' = RQuery at1 [] CDefault (lit "select 1") (QResults [] (Some RowSort) None []) None /\
    meaning R <> meaning [reread r'].
Proof.
  eexists _, _. split; [vm_compute; reflexivity|]. split; [reflexivity|].
  vm_compute. intros H. discriminate H.
Qed.

(* ---- P4, a type character that is not canonical for the column-type function (default_col
   reads X as `?`), resp. not accepted at all (two_col rejects R) *)
Example types_repr_needed_canonical :
  exists r' R,
    try_update default_col rvT true r_q (OQuery (lit "X") [[lit "1"]] None) = Some (r', POk R) /\
    meaning R <> meaning [reread r'].
Proof. eexists _, _. split; [vm_compute; reflexivity|]. vm_compute. intros H. discriminate H. Qed.

Example types_repr_needed_accepted :
  exists r',
    try_update two_col rvT true r_q2 (OQuery (lit "R") [[lit "1"]] None) = Some (r', PErr PInvalidType 1).
Proof. eexists. vm_compute. reflexivity. Qed.

(* ---- P5 [count_repr]: 2^64 rows affected *)
Example count_repr_needed :
  exists r',
    try_update default_col rvT false r_cnt (OStatement 18446744073709551616 None)
    = Some (r', PErr PInvalidNumber 1).
Proof. eexists. vm_compute. reflexivity. Qed.

(* ---- [col_stable]: see FormatProofs.format_sound_needs_col_stable (already needed by C05). *)

(* ---- the trimmer and an empty SQL text (premise [dangling_end rs' = false] of
   update_text_reparses_exact; [ends_in_empty_sql rs' = false] of update_text_reparses).  NEW FINDING, independent of any database answer: a file whose last
   record (other than blank lines) is a statement whose SQL block is the empty line parses; the
   formatter / updater writes it back with its trailing line feeds reduced to one, and the
   result no longer parses (UnexpectedEOF): the header has lost its (empty) SQL line. *)
Definition dangling_src : str := src ["statement ok"; ""]%string.

Example empty_sql_at_end_does_not_reparse :
  exists r text bytes,
    parse default_col rvT F None dangling_src = POk [r] /\
    parsed_ok default_col rvT [r] /\
    ends_in_empty_sql [r] = true /\ dangling_end [r] = true /\
    write_records [r] = Some text /\
    trim_tail (utf8 text) = TOk bytes /\
    bytes = utf8 (src ["statement ok"]%string) /\
    parse default_col rvT F None (src ["statement ok"]%string) = PErr PUnexpectedEOF 2.
Proof.
  eexists _, _, _. split; [vm_compute; reflexivity|]. split.
  { eapply (parse_parsed_ok default_col rvT F None default_col_stable dangling_src).
    - unfold no_trailing_cr. vm_compute. repeat constructor; discriminate.
    - vm_compute. reflexivity. }
  split; [vm_compute; reflexivity|]. split; [vm_compute; reflexivity|]. split; [vm_compute; reflexivity|].
  split; [vm_compute; reflexivity|]. split; vm_compute; reflexivity.
Qed.

(* the premise [ends_in_empty_sql] of UpdateText3 is stronger than needed in one kind of case: a
   record WITH a `----` block and an empty SQL text at the end of the file is written and read
   back correctly; the exact premise [dangling_end] of UpdateText7 accepts it *)
Definition empty_sql_query_src : str := src ["query I"; ""; "----"; "1"; ""]%string.

Example empty_sql_query_at_end_reparses :
  exists r text bytes R,
    parse default_col rvT F None empty_sql_query_src = POk [r] /\
    ends_in_empty_sql [r] = true /\ dangling_end [r] = false /\
    write_records [r] = Some text /\
    trim_tail (utf8 text) = TOk bytes /\
    bytes = utf8 (src ["query I"; ""; "----"; "1"]%string) /\
    parse default_col rvT F None (src ["query I"; ""; "----"; "1"]%string) = POk R /\
    R = [r].
Proof.
  eexists _, _, _, _. split; [vm_compute; reflexivity|]. split; [vm_compute; reflexivity|].
  split; [vm_compute; reflexivity|].
  split; [vm_compute; reflexivity|]. split; [vm_compute; reflexivity|].
  split; [vm_compute; reflexivity|]. split; vm_compute; reflexivity.
Qed.

(* ------------------------------------------------------------------ non-vacuity *)
(* a file with a comment, a statement that fails with a two-line message, a query whose
   expectation is wrong, and a command with an expected stdout; updated against a scripted
   database; all premises of [update_text_reparses_exact] hold and its conclusion is computed. *)
Module NV.
  Definition no_subst (_ : bool) (_ : list (str * str)) (s : str) : subres := SubOk s.
  Definition st0 : rstate := mkRState (mkConfig None None 0 false) false [] [] [].
  Definition sc : script :=
    mkScript [AOut (DErr [98; 111; 111; 109; 10; 97; 116; 32; 120]);
              AOut (DRows (lit "IT") [[lit "1"; lit "a"]; [lit "2"; lit "b"]])]
             (AOut (DComplete 0)) [] [SysExit true [104; 105; 10]] (SysExit true []) [].
  Definition file_src : str :=
    src ["# a test"; ""; "statement ok"; "insert"; "";
         "query I rowsort"; "select"; "----"; "7"; "";
         "system ok"; "echo hi"; "----"; "old"; ""; ""]%string.
  Definition rs : list record :=
    match parse default_col rvT F None file_src with POk l => l | _ => [] end.

  Lemma rs_parsed : parse default_col rvT F None file_src = POk rs.
  Proof. vm_compute. reflexivity. Qed.

  Lemma rs_parsed_ok : parsed_ok default_col rvT rs.
  Proof.
    eapply (parse_parsed_ok default_col rvT F None default_col_stable file_src); [|exact rs_parsed].
    unfold no_trailing_cr. vm_compute. repeat constructor; discriminate.
  Qed.

  Definition rs' : list record := updated_records rmF [9] false no_subst sc rs st0 world0.
  Definition outs : list routput := updated_outputs rmF [9] false no_subst sc rs st0 world0.

  Eval vm_compute in rs'.
  Eval vm_compute in outs.

  Ltac text_tac :=
    split; vm_compute; repeat split; try exact I;
    let H := fresh in intros H; decompose [and] H; congruence.

  Lemma outs_repr : Forall2 (out_repr default_col [9] false) rs outs.
  Proof.
    remember outs as o eqn:E. vm_compute in E. subst o.
    remember rs as l eqn:E. vm_compute in E. subst l.
    repeat (apply Forall2_cons || apply Forall2_nil); try exact I.
    - cbn [out_repr]. text_tac.
    - cbn [out_repr]. split.
      + intros _. repeat (apply Forall_cons || apply Forall_nil); unfold row_repr, line_ok;
          vm_compute; repeat split; try discriminate;
          let H := fresh in intros H; decompose [or] H; try congruence; try contradiction.
      + intros _. right. split; [discriminate | vm_compute; reflexivity].
    - cbn [out_repr]. text_tac.
  Qed.

  Example update_text_reparses_instance :
    exists written ev kn text R n,
      update_loop rmF [9] false no_subst sc false rs [mkItem F []] false st0 world0 [] [] []
        = UOk written ev kn /\
      written = [(F, utf8 text)] /\
      parse default_col rvT F None text = POk R /\
      reparse F None 0 [] (map reread rs') = R ++ repeat RNewline n /\
      meaning R = map reread (meaning rs') /\
      meaning R <> meaning rs.
  Proof.
    destruct (update_loop rmF [9] false no_subst sc false rs [mkItem F []] false st0 world0 [] [] [])
      as [written ev kn|] eqn:HU; [|vm_compute in HU; discriminate HU].
    destruct (update_text_reparses_exact default_col rvT rmF [9] false no_subst sc default_col_stable
                rvT_escape_valid F None F rs st0 world0 written ev kn rs_parsed_ok HU outs_repr)
      as (text & R & n & H1 & H2 & H3 & H4); [vm_compute; reflexivity|].
    exists written, ev, kn, text, R, n. repeat split; try assumption.
    fold rs' in H4. rewrite H4. vm_compute. intros H. discriminate H.
  Qed.
End NV.

Print Assumptions NV.update_text_reparses_instance.
