(* UpdateText5.v — the text layer of --override, part 5: include trees.  The flattened record
   list carries include markers; [split_files] (UpdateFile3.v) attributes its records to files
   exactly as [update_loop] does.  If the records of EVERY file of the input list are parser
   output ([parsed_ok], which [parse_parsed_ok] gives for each file that was parsed) and every
   executed record's output is representable, then the bytes written for every file closed by
   the update parse back to that file's written records (up to trailing blank-line records), or
   end in the dangling header of UpdateText3.v. *)
From SLT Require Import Base Text Syntax Duration Parser Render TextProofs RenderProofs
     Unparse FsTrim FsProofs FormatSpec FormatProofs Runner Update UpdateSpec UpdateProofs
     UpdateFile1 UpdateFile3 UpdateFile UpdateText UpdateText2 UpdateText3.
Open Scope N_scope.

Section PerFile.
  Variable col : N -> option N.
  Variable rv : str -> bool.
  Hypothesis Hcol : col_stable col.

  (* what one closed file holds, in terms of the records written to it *)
  Definition file_reparses (frs : list record) (bytes : list N) : Prop :=
    forall file upper, exists text,
      bytes = utf8 text /\
      ((exists R n,
          parse col rv file upper text = POk R /\
          reparse file upper 0 [] (map reread frs) = R ++ repeat RNewline n /\
          meaning R = map reread (meaning frs)) \/
       (ends_in_empty_sql frs = true /\
        exists ln, parse col rv file upper text = PErr PUnexpectedEOF ln)).

  Lemma written_file_reparses frs bytes :
    parsed_ok col rv (map reread frs) ->
    trim_tail (utf8 (recs_text frs)) = TOk bytes ->
    file_reparses frs bytes.
  Proof.
    intros Hpo Ht file upper.
    destruct (reparse_parse col rv file upper _ Hpo) as (f & Hw & Hparse).
    pose proof (write_records_text _ _ Hw) as Hf. rewrite recs_text_reread in Hf. subst f.
    assert (Hmean : meaning (reparse file upper 0 [] (map reread frs)) = map reread (meaning frs)).
    { rewrite meaning_reparse; [apply meaning_map_reread | | reflexivity].
      eapply rec_ok_comment_ne. apply Hpo. }
    destruct (trim_tail_text _ _ (recs_text_end frs) Ht) as [[Htext ->]|(body & j & Hl & Htext & ->)].
    - exists []. split; [reflexivity|]. left.
      rewrite Htext in Hparse. exists (reparse file upper 0 [] (map reread frs)), O.
      split; [exact Hparse|]. split; [rewrite app_nil_r; reflexivity | exact Hmean].
    - exists (body ++ [10]). split; [reflexivity|].
      rewrite Htext in Hparse.
      destruct (parse_trimmed col rv file upper body j _ Hparse)
        as [(R1 & n & Hp1 & HR)|(Hj & ln & R0 & r & n & Hp1 & HR & Hr)].
      + left. exists R1, n. split; [exact Hp1|]. split; [exact HR|].
        rewrite <- Hmean, HR. symmetry. apply meaning_app_blanks.
      + right. split; [|exists ln; exact Hp1].
        assert (Hrc : is_rcomment r = false) by (destruct r; try contradiction; reflexivity).
        assert (Hrn : r <> RNewline) by (intros ->; contradiction).
        destruct (meaning_last R0 r n Hrc Hrn) as [M HM].
        rewrite <- HR, Hmean in HM.
        unfold ends_in_empty_sql.
        rewrite <- empty_sql_reread. change RNewline with (reread RNewline) at 1.
        rewrite <- last_map. rewrite HM, last_last, empty_sql_erase.
        destruct r; try contradiction; subst; reflexivity.
  Qed.
End PerFile.

Section Includes.
  Variable col : N -> option N.
  Variable rv : str -> bool.
  Variable rm : str -> str -> bool.
  Variable sep : str.
  Variable strict : bool.
  Variable substitute : bool -> list (str * str) -> str -> subres.
  Variable sc : script.
  Hypothesis Hcol : col_stable col.
  Hypothesis Hesc : escape_valid rv.

  Notation rec_ok := (rec_ok col rv).
  Notation parsed_ok := (parsed_ok col rv).
  Notation out_repr := (out_repr col sep strict).
  Notation upd := (upd rm sep strict substitute sc).
  Notation written_rec := (written_rec rm sep strict).

  (* the record written for [r]: [written_rec r o] for a representable output [o] *)
  Definition W (r r' : record) : Prop := exists o, out_repr r o /\ r' = written_rec r o.
  Definition FW (p p' : str * list record) : Prop := fst p' = fst p /\ Forall2 W (snd p) (snd p').

  Lemma W_marker r r' : W r r' -> marker r' = marker r.
  Proof.
    intros (o & _ & ->). unfold UpdateText.written_rec.
    destruct (update_record rm sep strict r o) as [x|] eqn:Hu; [|reflexivity].
    apply update_frame in Hu.
    destruct r, x; cbn [same_but_expectation] in Hu; try contradiction; reflexivity.
  Qed.

  Lemma upd_W : forall rs depth halt st w rs' ev kn outs,
    upd rs depth halt st w = Some (rs', ev, kn, outs) ->
    Forall2 out_repr rs outs -> Forall2 W rs rs'.
  Proof.
    induction rs as [|r rest IH]; intros depth halt st w rs' ev kn outs H Hout.
    - cbn [UpdateFile1.upd] in H. destruct depth; [discriminate|]. inversion H; subst. constructor.
    - destruct depth as [|below]; [discriminate H|]. cbn [UpdateFile1.upd] in H.
      assert (Hstep : forall o x r',
                 cons_res r' (fst (fst x)) (snd (fst x)) o (snd x) = Some (rs', ev, kn, outs) ->
                 r' = written_rec r o ->
                 (forall rs0 ev0 kn0 os, snd x = Some (rs0, ev0, kn0, os) ->
                    Forall2 out_repr rest os -> Forall2 W rest rs0) ->
                 Forall2 W (r :: rest) rs').
      { intros o x r' Hc Hr' Hx. apply cons_res_some in Hc as (rs0 & ev0 & kn0 & os & Hx0 & E).
        inversion E; subst rs' outs. inversion Hout as [|a b la lb Ho Hos]; subst.
        constructor; [exists o; split; [exact Ho | reflexivity]|].
        eapply Hx; eassumption. }
      assert (Hcopy : forall d h,
                 cons_res r [] [] ONothing (upd rest d h st w) = Some (rs', ev, kn, outs) ->
                 Forall2 W (r :: rest) rs').
      { intros d h Hc. apply (Hstep ONothing ([], [], upd rest d h st w) r Hc).
        - unfold UpdateText.written_rec. rewrite update_skipped. reflexivity.
        - cbn [snd]. intros rs0 ev0 kn0 os Hx Hos. eapply IH; eassumption. }
      destruct (rkind_of r) eqn:Ek; try (eapply Hcopy; exact H).
      destruct halt; [eapply Hcopy; exact H|].
      destruct (apply_record substitute sc st w r) as [[[e1 st1] w1] o] eqn:Ea.
      cbv zeta in H.
      apply (Hstep o (e1, known_class sep (cfg st1) r o, upd rest (S below) false st1 w1) _ H).
      + reflexivity.
      + cbn [snd]. intros rs0 ev0 kn0 os Hx Hos. eapply IH; eassumption.
  Qed.

  Lemma W_parsed : forall frs frs' cs cn (K : list cond -> conn -> Prop),
    Forall2 W frs frs' -> Forall rec_ok frs -> scanP cs cn frs K ->
    Forall rec_ok (map reread frs') /\ scanP cs cn (map reread frs') K.
  Proof.
    intros frs frs' cs cn K HW. revert cs cn.
    induction HW as [|r r' frs frs' (o & Ho & ->) _ IH]; intros cs cn Hok Hsc.
    - split; [constructor | exact Hsc].
    - inversion Hok as [|r0 rest0 Hr Hrest]; subst.
      apply scanP_cons in Hsc as [Hm Hsc].
      destruct (IH _ _ Hrest Hsc) as [H1 H2].
      destruct (scan_written rm sep strict r o cs cn Hm) as [Hm' Hn'].
      cbn [map]. split.
      + constructor; [|exact H1]. apply written_rec_ok; assumption.
      + apply scanP_cons. split; [exact Hm'|]. rewrite Hn'. exact H2.
  Qed.

  Lemma W_parsed_ok frs frs' : Forall2 W frs frs' -> parsed_ok frs -> parsed_ok (map reread frs').
  Proof. intros HW [Hok Hsc]. destruct (W_parsed _ _ _ _ _ HW Hok Hsc). split; assumption. Qed.

  Lemma Forall2_snoc' {A B} (R : A -> B -> Prop) l1 l2 a b :
    Forall2 R l1 l2 -> R a b -> Forall2 R (l1 ++ [a]) (l2 ++ [b]).
  Proof. intros H1 H2. apply Forall2_app; [exact H1|]. constructor; [exact H2 | constructor]. Qed.

  Lemma split_files_W : forall rs rs' stack stack' done done' files,
    Forall2 W rs rs' -> Forall2 FW stack stack' -> Forall2 FW done done' ->
    split_files rs stack done = Some files ->
    exists files', split_files rs' stack' done' = Some files' /\ Forall2 FW files files'.
  Proof.
    intros rs rs' stack stack' done done' files HW. revert stack stack' done done' files.
    induction HW as [|r r' rs rs' Hr _ IH]; intros stack stack' done done' files Hst Hdn Hs.
    - cbn [split_files] in *. destruct Hst as [|p p' st st' Hp Hst]; [discriminate Hs|].
      inversion Hs; subst. eexists. split; [reflexivity|]. apply Forall2_snoc'; assumption.
    - cbn [split_files] in *. destruct Hst as [|p p' st st' Hp Hst]; [discriminate Hs|].
      destruct p as [f l], p' as [f' l']. destruct Hp as [Hf Hl]. cbn [fst snd] in Hf, Hl. subst f'.
      rewrite (W_marker _ _ Hr). destruct (marker r) as [[[] g]|].
      + eapply IH; [| exact Hdn | exact Hs].
        constructor; [split; [reflexivity | constructor]|].
        constructor; [split; [reflexivity | exact Hl] | exact Hst].
      + eapply IH; [exact Hst | | exact Hs].
        apply Forall2_snoc'; [exact Hdn|]. split; [reflexivity | exact Hl].
      + eapply IH; [| exact Hdn | exact Hs].
        constructor; [|exact Hst]. split; [reflexivity|]. cbn [snd].
        apply Forall2_snoc'; assumption.
  Qed.

  (* PART 2 for include trees: the records written to every file, as written, are parser output,
     and the bytes reported for the file are the trimmed text of these records *)
  Theorem update_files_parsed_ok :
    forall main rs st w written ev kn files_in,
      update_loop rm sep strict substitute sc false rs [mkItem main []] false st w [] [] []
        = UOk written ev kn ->
      split_files rs [(main, [])] [] = Some files_in ->
      Forall (fun p => parsed_ok (snd p)) files_in ->
      Forall2 out_repr rs (updated_outputs rm sep strict substitute sc rs st w) ->
      exists files_out,
        split_files (updated_records rm sep strict substitute sc rs st w) [(main, [])] [] = Some files_out /\
        Forall2 (fun pin pout => fst pout = fst pin /\ length (snd pout) = length (snd pin)) files_in files_out /\
        Forall (fun p => parsed_ok (map reread (snd p))) files_out /\
        Forall2 closed_as files_out written.
  Proof.
    intros main rs st w written ev kn files_in HU Hsin Hpin Hout.
    pose proof (update_loop_updated _ _ _ _ _ _ _ _ _ _ _ _ HU) as (_ & _ & files & Hsp & Hcl & _).
    apply update_loop_upd in HU. destruct HU as (rs1 & ev1 & kn1 & outs & U & _ & _).
    cbn [length] in U. unfold updated_records, updated_outputs in *. rewrite U in *.
    pose proof (upd_W _ _ _ _ _ _ _ _ _ U Hout) as HW.
    destruct (split_files_W rs rs1 [(main, [])] [(main, [])] [] [] files_in HW) as (files' & Hs' & HF);
      [constructor; [split; [reflexivity | constructor] | constructor] | constructor | exact Hsin |].
    rewrite Hsp in Hs'. inversion Hs'; subst files'.
    exists files. split; [exact Hsp|]. split; [|split; [|exact Hcl]].
    - clear - HF. induction HF as [|p p' l l' [Hf Hl] _ IH]; constructor; [|exact IH].
      split; [exact Hf|]. symmetry. eapply Forall2_same_length. exact Hl.
    - clear - HF Hpin Hcol Hesc. induction HF as [|p p' l l' [Hf Hl] _ IH]; [constructor|].
      inversion Hpin as [|p0 l0 Hp Hrest]; subst. constructor; [|apply IH; exact Hrest].
      eapply W_parsed_ok; eassumption.
  Qed.

  (* PART 3 for include trees *)
  Theorem update_text_reparses_includes :
    forall main rs st w written ev kn files_in,
      update_loop rm sep strict substitute sc false rs [mkItem main []] false st w [] [] []
        = UOk written ev kn ->
      split_files rs [(main, [])] [] = Some files_in ->
      Forall (fun p => parsed_ok (snd p)) files_in ->
      Forall2 out_repr rs (updated_outputs rm sep strict substitute sc rs st w) ->
      exists files_out,
        split_files (updated_records rm sep strict substitute sc rs st w) [(main, [])] [] = Some files_out /\
        Forall2 (fun pin pout => fst pout = fst pin /\ length (snd pout) = length (snd pin)) files_in files_out /\
        Forall2 (fun pout d => fst d = fst pout /\ file_reparses col rv (snd pout) (snd d)) files_out written.
  Proof.
    intros main rs st w written ev kn files_in HU Hsin Hpin Hout.
    destruct (update_files_parsed_ok main rs st w written ev kn files_in HU Hsin Hpin Hout)
      as (files & Hsp & Hnm & Hpo & Hcl).
    exists files. split; [exact Hsp|]. split; [exact Hnm|].
    clear - Hpo Hcl. induction Hcl as [|p d l l' [Hn Ht] _ IH]; [constructor|].
    inversion Hpo as [|p0 l0 Hp Hrest]; subst. constructor; [|apply IH; exact Hrest].
    split; [exact Hn|]. apply written_file_reparses; assumption.
  Qed.
End Includes.

Print Assumptions update_files_parsed_ok.
Print Assumptions update_text_reparses_includes.
