(* UpdateEndToEnd.v — C06 end to end at the level of file contents (single file, no include
   markers): the bytes `--override` writes are the UTF-8 of a text that PARSES, and RUNNING THE
   PARSED RECORDS from the same initial state and world ends without failure having issued
   exactly the events of the update; and updating the parsed records again is a fixed point
   down to the bytes.

   Glue of: UpdateFile.update_file_converges (record level, stated on [map reread rs']),
   UpdateText7.update_text_reparses_exact (the written text parses to records [R] with
   [meaning R = map reread (meaning rs')]) and RunMeaning.run_multi_meaning (the runner only
   depends on the meaning). *)
From SLT Require Import Base Text Syntax Duration Parser Render TextProofs RenderProofs
     Unparse FsTrim FsProofs FormatSpec FormatProofs JudgeSpec Runner Update UpdateSpec UpdateProofs
     Include IncludeSpec IncludeProofs
     UpdateFile1 UpdateFile2 UpdateFile3 UpdateFile UpdateText UpdateText2 UpdateText3 UpdateText5
     UpdateText6 UpdateText7 RunMeaning.
Open Scope N_scope.

(* ------------------------------------------------------------------ 1. running the parsed text *)
(* the first half: the written text parses, and the parsed records pass with the events of the
   update *)
Theorem update_end_to_end_single_run :
  forall (col : N -> option N) (rv : str -> bool) (re : str -> str -> bool) (sep : str) (strict : bool)
         (substitute : bool -> list (str * str) -> str -> subres) (sc : script),
    col_stable col -> escape_valid rv -> escape_law re ->
    forall (file : str) (upper : option loc) (main : str) (rs : list record) (st0 : rstate) (w0 : world)
           (written : list (str * list N)) (ev : list event),
      strict = strict_cols (cfg st0) ->
      Forall UpdateFile1.retry_ok rs ->
      parsed_ok col rv rs ->
      update_loop re sep strict substitute sc false rs [mkItem main []] false st0 w0 [] [] []
        = UOk written ev [] ->
      Forall2 (out_repr col sep strict) rs (updated_outputs re sep strict substitute sc rs st0 w0) ->
      Forall cmd_ok (updated_outputs re sep strict substitute sc rs st0 w0) ->
      let rs' := updated_records re sep strict substitute sc rs st0 w0 in
      dangling_end rs' = false ->
      exists text R n,
        written = [(main, utf8 text)] /\
        parse col rv file upper text = POk R /\
        reparse file upper 0 [] (map reread rs') = R ++ repeat RNewline n /\
        meaning R = meaning (map reread rs') /\
        exists st' w' e,
          run_multi_e re substitute sc st0 w0 R = (ev, st', w', e) /\
          (e = Finished \/ e = Halted) /\
          run_multi re substitute sc st0 w0 R = (ev, st', w', FOk) /\
          (* the same final state and world as the run of the records as re-read *)
          run_multi re substitute sc st0 w0 (map reread rs') = (ev, st', w', FOk).
Proof.
  intros col rv re sep strict substitute sc Hcol Hrv Hesc file upper main rs st0 w0 written ev
         Hs Hrt Hp HU Hout Hc rs' Hend.
  destruct (update_text_reparses_exact col rv re sep strict substitute sc Hcol Hrv
              file upper main rs st0 w0 written ev [] Hp HU Hout Hend)
    as (text & R & n & Hw & Hparse & Hre & Hmean).
  destruct (update_file_converges re sep strict substitute sc main rs st0 w0 written ev
              Hesc Hs Hrt HU Hc) as [(st' & w' & e & HM & He & HF) _].
  fold rs' in HM, HF.
  assert (Hm2 : meaning (map reread rs') = meaning R).
  { rewrite Hmean. apply meaning_map_reread. }
  destruct (run_multi_meaning re substitute sc _ _ Hm2 st0 w0 ev st' w' e HM) as (e' & HR & Hee).
  assert (e' = e).
  { destruct He as [-> | ->];
      [apply ending_eq_modloc_finished in Hee | apply ending_eq_modloc_halted in Hee]; exact Hee. }
  subst e'.
  exists text, R, n. split; [exact Hw|]. split; [exact Hparse|]. split; [exact Hre|].
  split; [symmetry; exact Hm2|].
  exists st', w', e. split; [exact HR|]. split; [exact He|]. split; [|exact HF].
  unfold run_multi. rewrite HR. destruct He as [-> | ->]; reflexivity.
Qed.
Print Assumptions update_end_to_end_single_run.

(* ------------------------------------------------------------------ 2. the second update, on the parsed records *)
Section Again.
  Variable re : str -> str -> bool.
  Variable sep : str.
  Variable strict : bool.
  Variable substitute : bool -> list (str * str) -> str -> subres.
  Variable sc : script.

  Notation apply_record := (apply_record substitute sc).
  Notation update_record := (update_record re sep strict).
  Notation upd := (upd re sep strict substitute sc).
  Notation update_loop := (update_loop re sep strict substitute sc false).

  (* ---- one step of [upd]: the record written, its events / flags / output, and the depth,
     halt flag, state and world the rest of the list is updated with *)
  Definition upd_step (r : record) (below : nat) (halt : bool) (st : rstate) (w : world)
    : record * list event * list N * routput * nat * bool * rstate * world :=
    match rkind_of r with
    | KBegin => (r, [], [], ONothing, S (S below), halt, st, w)
    | KEnd => (r, [], [], ONothing, below, halt, st, w)
    | KHalt => (r, [], [], ONothing, S below, true, st, w)
    | KOther =>
        if halt then (r, [], [], ONothing, S below, true, st, w)
        else
          let '(e1, st1, w1, o) := apply_record st w r in
          (match update_record r o with Some x => x | None => r end,
           e1, known_class sep (cfg st1) r o, o, S below, false, st1, w1)
    end.

  Lemma upd_cons r rest below halt st w :
    upd (r :: rest) (S below) halt st w =
    let '(r', e1, k1, o, d', h', st1, w1) := upd_step r below halt st w in
    cons_res r' e1 k1 o (upd rest d' h' st1 w1).
  Proof.
    cbn [UpdateFile1.upd]. unfold upd_step. destruct (rkind_of r); try reflexivity.
    destruct halt; [reflexivity|].
    destruct (apply_record st w r) as [[[e1 st1] w1] o]. reflexivity.
  Qed.

  Lemma upd_depth0 rs halt st w : upd rs 0 halt st w = None.
  Proof. destruct rs; reflexivity. Qed.

  (* a record that is neither executed nor a marker: written as it is *)
  Definition inert (r : record) : Prop :=
    match r with RComment _ | RNewline => True | _ => False end.

  Lemma upd_step_inert r below halt st w :
    inert r -> upd_step r below halt st w = (r, [], [], ONothing, S below, halt, st, w).
  Proof. destruct r; cbn [inert]; try contradiction; intros _; destruct halt; reflexivity. Qed.

  Lemma upd_cons_inert r rest below halt st w :
    inert r ->
    upd (r :: rest) (S below) halt st w = cons_res r [] [] ONothing (upd rest (S below) halt st w).
  Proof. intros H. rewrite upd_cons, upd_step_inert by exact H. reflexivity. Qed.

  Lemma upd_blanks n below halt st w :
    upd (repeat RNewline n) (S below) halt st w = Some (repeat RNewline n, [], [], repeat ONothing n).
  Proof.
    induction n as [|n IH]; [reflexivity|]. cbn [repeat].
    rewrite upd_cons_inert by exact I. rewrite IH. reflexivity.
  Qed.

  (* trailing blank-line records are written as they are and do nothing *)
  Lemma upd_app_blanks n : forall A d halt st w Y ev kn outs,
    upd (A ++ repeat RNewline n) d halt st w = Some (Y, ev, kn, outs) ->
    exists YA outsA, upd A d halt st w = Some (YA, ev, kn, outsA) /\ Y = YA ++ repeat RNewline n /\
                     outs = outsA ++ repeat ONothing n.
  Proof.
    induction A as [|r A IH]; intros d halt st w Y ev kn outs H.
    - cbn [app] in H. destruct d as [|below]; [rewrite upd_depth0 in H; discriminate H|].
      rewrite upd_blanks in H. inversion H; subst. exists [], []. repeat split; reflexivity.
    - destruct d as [|below]; [discriminate H|].
      cbn [app] in H. rewrite upd_cons in H |- *.
      destruct (upd_step r below halt st w) as [[[[[[[r' e1] k1] o] d'] h'] st1] w1].
      apply cons_res_some in H. destruct H as (rs2 & ev2 & kn2 & os & U & E). inversion E; subst.
      destruct (IH _ _ _ _ _ _ _ _ U) as (YA & outsA & UA & -> & ->).
      rewrite UA. cbn [cons_res]. eexists _, _. repeat split; reflexivity.
  Qed.

  (* ---- relocating a record (what formatting and parsing does to it) commutes with the step *)
  Section Reloc.
    Variable file : str.
    Variable upper : option loc.
    Notation reloc := (reloc file upper).
    Notation rp := (reparse file upper).

    Lemma apply_record_reloc st w n r : apply_record st w (reloc n r) = apply_record st w r.
    Proof. destruct r; reflexivity. Qed.

    Lemma rkind_reloc n r : rkind_of (reloc n r) = rkind_of r.
    Proof. destruct r; reflexivity. Qed.

    Lemma known_class_reloc g n r o : known_class sep g (reloc n r) o = known_class sep g r o.
    Proof. destruct r; reflexivity. Qed.

    Lemma update_record_reloc n r o :
      match update_record (reloc n r) o with Some x => x | None => reloc n r end =
      reloc n (match update_record r o with Some x => x | None => r end).
    Proof.
      destruct r; try (destruct o; reflexivity);
        destruct o as [|t rows [m|]|cnt [m|]|out f]; cbn [FormatProofs.reloc Update.update_record];
        try reflexivity;
        try (destruct e; try reflexivity; match goal with |- context [err_match ?a ?b ?c] => destruct (err_match a b c) end; reflexivity);
        try (destruct f; reflexivity).
    Qed.

    Lemma upd_step_reloc n r below halt st w :
      upd_step (reloc n r) below halt st w =
      let '(r', e1, k1, o, d', h', st1, w1) := upd_step r below halt st w in
      (reloc n r', e1, k1, o, d', h', st1, w1).
    Proof.
      unfold upd_step. rewrite rkind_reloc. destruct (rkind_of r); try reflexivity.
      destruct halt; [reflexivity|]. rewrite apply_record_reloc.
      destruct (apply_record st w r) as [[[e1 st1] w1] o].
      rewrite update_record_reloc, known_class_reloc. reflexivity.
    Qed.

    Lemma rec_text_reloc n r : rec_text (reloc n r) = rec_text r.
    Proof. unfold rec_text. rewrite display_reloc. reflexivity. Qed.

    Lemma rec_text_comment ls : ls <> [] -> rec_text (RComment ls) = wc (map trim_end ls).
    Proof.
      intros Hne. unfold rec_text, wc. cbn [display]. rewrite map_map.
      rewrite (map_ext _ cline cline_trim). fold cline.
      apply (lf_lines_join (map cline ls)). destruct ls; [contradiction | discriminate].
    Qed.

    Lemma rec_text_flushc cm : trimmed cm -> recs_text (flushc cm) = wc cm.
    Proof.
      intros Ht. destruct cm as [|c cm]; [reflexivity|].
      cbn [flushc]. unfold recs_text. cbn [flat_map]. rewrite app_nil_r.
      rewrite rec_text_comment by discriminate. rewrite Ht. reflexivity.
    Qed.

    Lemma recs_text_cons r b : recs_text (r :: b) = rec_text r ++ recs_text b.
    Proof. reflexivity. Qed.

    Lemma upd_flushc cm Z below halt st w :
      upd (flushc cm ++ Z) (S below) halt st w =
      match upd Z (S below) halt st w with
      | Some (Y, ev, kn, os) => Some (flushc cm ++ Y, ev, kn, map (fun _ => ONothing) (flushc cm) ++ os)
      | None => None
      end.
    Proof.
      destruct cm as [|c cm]; cbn [flushc app map].
      - destruct (upd Z (S below) halt st w) as [[[[Y ev] kn] os]|]; reflexivity.
      - rewrite upd_cons_inert by exact I.
        destruct (upd Z (S below) halt st w) as [[[[Y ev] kn] os]|]; reflexivity.
    Qed.

    Definition has_display (r : record) : Prop := display r <> None.

    Lemma has_display_reloc n r : has_display r -> has_display (reloc n r).
    Proof. unfold has_display. rewrite display_reloc. auto. Qed.

    Lemma has_display_flushc cm : Forall has_display (flushc cm).
    Proof. destruct cm; cbn [flushc]; repeat constructor. discriminate. Qed.

    Lemma cmd_ok_flushc cm : Forall cmd_ok (map (fun _ => ONothing) (flushc cm)).
    Proof. destruct cm; cbn [flushc map]; repeat constructor. Qed.

    (* the update of the formatted-and-parsed list is the formatted-and-parsed updated list, as
       far as the text, the events and the flags go *)
    Lemma upd_reparse : forall X ln cm d halt st w X' ev kn outs,
      Forall (fun r => match r with RComment ls => ls <> [] | _ => True end) X ->
      trimmed cm ->
      upd X d halt st w = Some (X', ev, kn, outs) ->
      Forall has_display X' ->
      exists Y' outsY,
        upd (rp ln cm X) d halt st w = Some (Y', ev, kn, outsY) /\
        recs_text Y' = wc cm ++ recs_text X' /\
        Forall has_display Y' /\
        (Forall cmd_ok outs -> Forall cmd_ok outsY).
    Proof.
      induction X as [|r rest IH]; intros ln cm d halt st w X' ev kn outs Hne Ht U Hd.
      - destruct d as [|below]; [discriminate U|]. cbn [UpdateFile1.upd] in U. inversion U; subst.
        cbn [reparse]. rewrite <- (app_nil_r (flushc cm)), upd_flushc. cbn [UpdateFile1.upd].
        eexists _, _. split; [reflexivity|]. rewrite !app_nil_r. split; [apply rec_text_flushc; exact Ht|].
        split; [apply has_display_flushc|]. intros _. apply cmd_ok_flushc.
      - destruct d as [|below]; [discriminate U|].
        inversion Hne as [|r0 rest0 Hr Hrest]; subst.
        destruct (is_rcomment r) eqn:Hc.
        + destruct r; try discriminate Hc. cbn [reparse].
          rewrite upd_cons_inert in U by exact I.
          apply cons_res_some in U. destruct U as (rs2 & ev2 & kn2 & os & U & E). inversion E; subst.
          inversion Hd as [|x0 l0 Hd1 Hd2]; subst.
          destruct (IH (ln + N.of_nat (length ls)) (cm ++ map trim_end ls) _ _ _ _ _ _ _ _ Hrest
                       (trimmed_app _ _ Ht (trimmed_map ls)) U Hd2) as (Y' & outsY & UY & HT & HD & HC).
          exists Y', outsY. cbn [app]. split; [exact UY|]. split; [|split; [exact HD|]].
          * rewrite HT, wc_app, recs_text_cons, rec_text_comment by exact Hr.
            rewrite <- app_assoc. reflexivity.
          * intros Hco. apply HC. inversion Hco; assumption.
        + rewrite reparse_step by exact Hc. rewrite upd_flushc.
          rewrite upd_cons in U. rewrite upd_cons, upd_step_reloc.
          destruct (upd_step r below halt st w) as [[[[[[[r' e1] k1] o] d'] h'] st1] w1].
          apply cons_res_some in U. destruct U as (rs2 & ev2 & kn2 & os & U & E). inversion E; subst.
          inversion Hd as [|x0 l0 Hd1 Hd2]; subst.
          destruct (IH (ln + N.of_nat (length (rlines r))) [] _ _ _ _ _ _ _ _ Hrest eq_refl U Hd2)
            as (Y' & outsY & UY & HT & HD & HC).
          rewrite UY. cbn [cons_res]. eexists _, _. split; [reflexivity|]. split; [|split].
          * rewrite recs_text_app, rec_text_flushc by exact Ht.
            rewrite !recs_text_cons, rec_text_reloc, HT. reflexivity.
          * apply Forall_app. split; [apply has_display_flushc|].
            constructor; [apply has_display_reloc; exact Hd1 | exact HD].
          * intros Hco. inversion Hco as [|o0 os0 Ho Hos]; subst.
            apply Forall_app. split; [apply cmd_ok_flushc|].
            constructor; [exact Ho | apply HC; exact Hos].
    Qed.
  End Reloc.

  (* ---- from [upd] back to the driver, for a list without include markers *)
  Lemma write_rec_some it r : has_display r ->
    write_rec it r = Some (mkItem (it_file it) (it_text it ++ rec_text r)).
  Proof.
    unfold has_display, write_rec, rec_text. destruct (display r); [reflexivity | contradiction].
  Qed.

  Lemma update_loop_of_upd : forall X it halt st w done ev0 kn0 Y ev kn outs bytes,
    Forall (fun r => marker r = None) X ->
    upd X 1 halt st w = Some (Y, ev, kn, outs) ->
    Forall has_display Y ->
    trim_tail (utf8 (it_text it ++ recs_text Y)) = TOk bytes ->
    update_loop X [it] halt st w done ev0 kn0 = UOk (done ++ [(it_file it, bytes)]) (ev0 ++ ev) (kn0 ++ kn).
  Proof.
    induction X as [|r rest IH]; intros it halt st w done ev0 kn0 Y ev kn outs bytes Hm U Hd Ht.
    - cbn [UpdateFile1.upd] in U. inversion U; subst. cbn [Update.update_loop].
      unfold close_item. unfold recs_text in Ht. cbn [flat_map] in Ht. rewrite app_nil_r in Ht.
      rewrite Ht. rewrite !app_nil_r. reflexivity.
    - inversion Hm as [|r0 rest0 Hr Hrest]; subst.
      rewrite upd_cons in U. unfold upd_step in U.
      assert (Hcopy : forall h',
                 cons_res r [] [] ONothing (upd rest 1 true st w) = Some (Y, ev, kn, outs) ->
                 match write_rec it r with
                 | Some it' => update_loop rest [it'] true st w done ev0 kn0
                 | None => UPanic done ev0 (map it_file [it])
                 end = UOk (done ++ [(it_file it, bytes)]) (ev0 ++ ev) (kn0 ++ kn) \/ h' = true).
      { intros h' Hx. left. apply cons_res_some in Hx. destruct Hx as (rs2 & ev2 & kn2 & os & U2 & E).
        inversion E; subst. inversion Hd as [|x0 l0 Hd1 Hd2]; subst.
        rewrite write_rec_some by exact Hd1.
        rewrite (IH _ true st w done ev0 kn0 rs2 ev2 kn2 os bytes Hrest U2 Hd2).
        - reflexivity.
        - cbn [it_text]. rewrite <- app_assoc. exact Ht. }
      assert (Hexec :
                 (let '(e1, st1, w1, o) := apply_record st w r in
                  (match update_record r o with Some x => x | None => r end,
                   e1, known_class sep (cfg st1) r o, o, 1%nat, false, st1, w1)) =
                 upd_step r 0 false st w ->
                 rkind_of r = KOther -> halt = false ->
                 (let '(e1, st1, w1, o) := apply_record st w r in
                  let r' := match update_record r o with Some x => x | None => r end in
                  match write_rec it r' with
                  | Some it' => update_loop rest [it'] false st1 w1 done (ev0 ++ e1) (kn0 ++ known_class sep (cfg st1) r o)
                  | None => UPanic done (ev0 ++ e1) (map it_file [it])
                  end) = UOk (done ++ [(it_file it, bytes)]) (ev0 ++ ev) (kn0 ++ kn)).
      { intros _ K ->. rewrite K in U.
        destruct (apply_record st w r) as [[[e1 st1] w1] o]. cbv zeta.
        apply cons_res_some in U. destruct U as (rs2 & ev2 & kn2 & os & U2 & E).
        inversion E; subst. inversion Hd as [|x0 l0 Hd1 Hd2]; subst.
        rewrite write_rec_some by exact Hd1.
        rewrite (IH _ false st1 w1 done (ev0 ++ e1) _ rs2 ev2 kn2 os bytes Hrest U2 Hd2).
        - rewrite <- !app_assoc. reflexivity.
        - cbn [it_text]. rewrite <- app_assoc. exact Ht. }
      destruct r; cbn [marker] in Hr; try discriminate Hr; cbn [rkind_of] in U;
        cbn [Update.update_loop];
        try (destruct halt;
             [ destruct (Hcopy false U) as [Hx|Hx]; [exact Hx | discriminate Hx]
             | apply Hexec; reflexivity ]).
      destruct halt; (destruct (Hcopy false U) as [Hx|Hx]; [exact Hx | discriminate Hx]).
  Qed.
End Again.

(* ------------------------------------------------------------------ 3. small facts for the assembly *)
Lemma utf8_eq_nl text : utf8 text = [10] -> text = [10].
Proof.
  destruct text as [|c t]; [discriminate|].
  change (utf8 (c :: t)) with (utf8_cp c ++ utf8 t). unfold utf8_cp.
  destruct (c <? 128) eqn:E1.
  - cbn [app]. intros H. inversion H; subst. destruct t as [|c2 t]; [reflexivity|].
    exfalso. change (utf8 (c2 :: t)) with (utf8_cp c2 ++ utf8 t) in H2. unfold utf8_cp in H2.
    destruct (c2 <? 128); [discriminate H2|]. destruct (c2 <? 2048); [discriminate H2|].
    destruct (c2 <? 65536); discriminate H2.
  - destruct (c <? 2048); [cbn [app]; intros H; inversion H; lia|].
    destruct (c <? 65536); cbn [app]; intros H; inversion H; lia.
Qed.

Lemma parse_single_nl col rv file upper : parse col rv file upper [10] = POk [RNewline].
Proof. vm_compute. reflexivity. Qed.

Lemma rec_ok_has_display col rv r : rec_ok col rv r -> has_display r.
Proof.
  unfold has_display. destruct r; cbn [rec_ok display]; try discriminate; try contradiction.
  - destruct c as [m|[|]|[|]]; discriminate.
  - destruct c; discriminate.
  - destruct c; discriminate.
Qed.

Lemma has_display_reread r : has_display (reread r) <-> has_display r.
Proof. unfold has_display. rewrite display_reread. tauto. Qed.

Lemma recs_text_nil_inv Y : Forall has_display Y -> recs_text Y = [] -> Y = [].
Proof.
  destruct Y as [|r Y]; [reflexivity|]. intros Hd H. exfalso.
  inversion Hd as [|x l Hr _]; subst. unfold has_display in Hr.
  unfold recs_text in H. cbn [flat_map] in H. unfold rec_text in H.
  destruct (display r) as [t|]; [|contradiction]. destruct t; discriminate H.
Qed.

Lemma marker_reloc file upper n r : marker (reloc file upper n r) = marker r.
Proof. destruct r; reflexivity. Qed.

Lemma reparse_no_marker file upper : forall rs ln cm,
  Forall (fun r => marker r = None) rs ->
  Forall (fun r => marker r = None) (reparse file upper ln cm rs).
Proof.
  induction rs as [|r rest IH]; intros ln cm H.
  - cbn [reparse]. destruct cm; cbn [flushc]; repeat constructor.
  - inversion H as [|r0 l0 Hr Hrest]; subst.
    destruct (is_rcomment r) eqn:Hc.
    + destruct r; try discriminate Hc. cbn [reparse]. apply IH. exact Hrest.
    + rewrite reparse_step by exact Hc. apply Forall_app. split.
      * destruct cm; cbn [flushc]; repeat constructor.
      * constructor; [rewrite marker_reloc; exact Hr | apply IH; exact Hrest].
Qed.

(* the trimmer does not see trailing blank-line records that were dropped, provided something
   is left *)
Lemma trim_tail_drop_blanks T n bytes :
  T = [] \/ last T 0 = 10 ->
  (T = [] -> n = O) ->
  trim_tail (utf8 (T ++ repeat 10 n)) = TOk bytes ->
  trim_tail (utf8 T) = TOk bytes.
Proof.
  intros Hend Hn Ht. destruct (split_trailing_nl T) as (b & k & HT & Hl).
  destruct k as [|k].
  - cbn [repeat] in HT. rewrite app_nil_r in HT. subst b.
    destruct Hend as [E|E]; [|contradiction]. rewrite (Hn E) in Ht. cbn [repeat] in Ht.
    rewrite app_nil_r in Ht. exact Ht.
  - subst T. rewrite <- app_assoc, <- repeat_app in Ht.
    rewrite utf8_app, utf8_repeat_nl in Ht |- *.
    rewrite trim_tail_spec in Ht |- *; try (apply utf8_last; exact Hl); try (cbn; lia).
    exact Ht.
Qed.

(* ------------------------------------------------------------------ 4. THE THEOREM *)
(* Single file, no include markers.  Premises: those of UpdateFile.update_file_converges and of
   UpdateText7.update_text_reparses_exact together.  The regex oracle appears in its two roles,
   kept apart: [rv] (Regex::new accepts the pattern; the parser) and [re] (Regex::is_match; the
   judge and the updater).  [file] / [upper] are the location parameters of the parser.

   Conclusion: the driver reports exactly one file, [main], whose bytes are the UTF-8 of a text
   that (1) parses, to records [R]; (2) [R] run with the library's run_multi from the SAME
   initial state and world ends with FOk and issues exactly the event list [ev] of the update
   (connects, requests, commands, sleeps, in order); (3) updating [R] again from the same state
   and world completes, issues [ev] again, raises no known-finding flag, no command fails, and
   reports for [main] byte for byte the same content: a fixed point at the level of bytes. *)
Theorem update_end_to_end_single :
  forall (col : N -> option N) (rv : str -> bool) (re : str -> str -> bool) (sep : str) (strict : bool)
         (substitute : bool -> list (str * str) -> str -> subres) (sc : script),
    col_stable col -> escape_valid rv -> escape_law re ->
    forall (file : str) (upper : option loc) (main : str) (rs : list record) (st0 : rstate) (w0 : world)
           (written : list (str * list N)) (ev : list event),
      strict = strict_cols (cfg st0) ->
      Forall UpdateFile1.retry_ok rs ->
      parsed_ok col rv rs ->
      update_loop re sep strict substitute sc false rs [mkItem main []] false st0 w0 [] [] []
        = UOk written ev [] ->
      Forall2 (out_repr col sep strict) rs (updated_outputs re sep strict substitute sc rs st0 w0) ->
      Forall cmd_ok (updated_outputs re sep strict substitute sc rs st0 w0) ->
      dangling_end (updated_records re sep strict substitute sc rs st0 w0) = false ->
      exists text R,
        written = [(main, utf8 text)] /\
        (* (1) the written file parses *)
        parse col rv file upper text = POk R /\
        meaning R = meaning (map reread (updated_records re sep strict substitute sc rs st0 w0)) /\
        (* (2) and passes against the same database, with the events of the update *)
        (exists st' w',
            run_multi re substitute sc st0 w0 R = (ev, st', w', FOk) /\
            exists e, run_multi_e re substitute sc st0 w0 R = (ev, st', w', e) /\ (e = Finished \/ e = Halted)) /\
        (* (3) a second update, of the parsed file, is a fixed point down to the bytes *)
        update_loop re sep strict substitute sc false R [mkItem main []] false st0 w0 [] [] []
          = UOk written ev [] /\
        (exists R2 outs2,
            upd re sep strict substitute sc R 1 false st0 w0 = Some (R2, ev, [], outs2) /\
            Forall cmd_ok outs2 /\
            Forall (fun r => display r <> None) R2 /\
            trim_tail (utf8 (recs_text R2)) = TOk (utf8 text)).
Proof.
  intros col rv re sep strict substitute sc Hcol Hrv Hesc file upper main rs st0 w0 written ev
         Hs Hrt Hp HU Hout Hc Hend.
  set (rs' := updated_records re sep strict substitute sc rs st0 w0) in *.
  destruct (update_end_to_end_single_run col rv re sep strict substitute sc Hcol Hrv Hesc
              file upper main rs st0 w0 written ev Hs Hrt Hp HU Hout Hc Hend)
    as (text & R & n & Hw & Hparse & Hre & Hmean & st' & w' & e & HR & He & HF & _).
  fold rs' in Hre, Hmean.
  (* the bytes *)
  destruct (update_text_reparses_untrimmed col rv re sep strict substitute sc Hcol Hrv
              file upper main rs st0 w0 written ev [] Hp HU Hout)
    as (bytes & Hw2 & Ht & _ & _ & _). fold rs' in Ht.
  assert (Hb : bytes = utf8 text).
  { rewrite Hw in Hw2. inversion Hw2. reflexivity. }
  subst bytes.
  (* the records written are parser output *)
  assert (Hpo : parsed_ok col rv (map reread rs')).
  { pose proof HU as HU'. apply update_loop_upd in HU'.
    destruct HU' as (rs1 & ev1 & kn1 & outs & U & _ & _). cbn [length] in U.
    apply updated_records_parsed_ok; [exact Hcol | exact Hrv | exact Hp | exact Hout | rewrite U; discriminate]. }
  destruct Hpo as [Hok Hscan].
  (* the second update at record level *)
  destruct (update_file_converges re sep strict substitute sc main rs st0 w0 written ev
              Hesc Hs Hrt HU Hc) as [_ (rs'' & outs'' & U2 & M2 & _ & Hc2)].
  fold rs' in U2, M2.
  assert (Hd2 : Forall has_display rs'').
  { apply Forall_forall. intros r Hr. apply has_display_reread.
    assert (Hin : In (reread r) (map reread rs')) by (rewrite <- M2; apply in_map; exact Hr).
    rewrite Forall_forall in Hok. eapply rec_ok_has_display. apply Hok. exact Hin. }
  destruct (upd_reparse re sep strict substitute sc file upper (map reread rs') 0 [] 1%nat false st0 w0
              rs'' ev [] outs'' (rec_ok_comment_ne col rv _ Hok) eq_refl U2 Hd2)
    as (Y' & outsY & UY & HTY & HDY & HCY).
  specialize (HCY Hc2).
  rewrite Hre in UY.
  destruct (upd_app_blanks re sep strict substitute sc n R 1%nat false st0 w0 Y' ev [] outsY UY)
    as (YA & outsA & UA & EY & EO).
  subst Y' outsY. apply Forall_app in HDY. destruct HDY as [HDA _].
  apply Forall_app in HCY. destruct HCY as [HCA _].
  assert (Htext : recs_text YA ++ repeat 10 n = recs_text rs').
  { rewrite <- (recs_text_reread rs'), <- M2, recs_text_reread.
    unfold wc in HTY. cbn [map lf_lines flat_map app] in HTY. rewrite <- HTY.
    rewrite recs_text_app, recs_text_blanks. reflexivity. }
  assert (Htrim : trim_tail (utf8 (recs_text YA)) = TOk (utf8 text)).
  { apply (trim_tail_drop_blanks _ n); [apply recs_text_end | | rewrite Htext; exact Ht].
    intros E. destruct n as [|n]; [reflexivity|]. exfalso.
    apply recs_text_nil_inv in E; [|exact HDA]. subst YA.
    assert (R = []).
    { destruct R as [|r R]; [reflexivity|]. rewrite upd_cons in UA.
      destruct (upd_step re sep strict substitute sc r 0 false st0 w0) as [[[[[[[r' e1] k1] o] d'] h'] st1] w1].
      apply cons_res_some in UA. destruct UA as (? & ? & ? & ? & _ & E). discriminate E. }
    subst R.
    unfold recs_text at 1 in Htext. cbn [flat_map app] in Htext. rewrite <- Htext in Ht.
    change (repeat 10 (S n)) with ([] ++ repeat 10 (S n)) in Ht.
    rewrite utf8_app, utf8_repeat_nl in Ht.
    rewrite trim_tail_spec in Ht; [| cbn; discriminate | lia].
    inversion Ht as [Hx]. cbn [utf8 flat_map app] in Hx. symmetry in Hx.
    apply utf8_eq_nl in Hx. subst text. rewrite parse_single_nl in Hparse. discriminate Hparse. }
  exists text, R. split; [exact Hw|]. split; [exact Hparse|]. split; [exact Hmean|].
  split; [exists st', w'; split; [exact HF|]; exists e; split; [exact HR | exact He]|].
  split.
  - rewrite Hw.
    assert (Hmk : Forall (fun r => marker r = None) R).
    { assert (Hall : Forall (fun r => marker r = None) (R ++ repeat RNewline n)).
      { rewrite <- Hre. apply reparse_no_marker. apply Forall_forall. intros r Hr.
        rewrite Forall_forall in Hok. eapply rec_ok_no_marker. apply Hok. exact Hr. }
      apply Forall_app in Hall. apply Hall. }
    rewrite (update_loop_of_upd re sep strict substitute sc R (mkItem main []) false st0 w0 [] [] []
               YA ev [] outsA (utf8 text) Hmk UA HDA); [reflexivity|].
    cbn [it_text app]. exact Htrim.
  - exists YA, outsA. split; [exact UA|]. split; [exact HCA|]. split; [exact HDA | exact Htrim].
Qed.
Print Assumptions update_end_to_end_single.

(* ------------------------------------------------------------------ 4b. from the source text *)
(* parser output never has `retry 0`: the premise [Forall retry_ok rs] follows from [parsed_ok] *)
Lemma parsed_ok_retry_ok col rv rs : parsed_ok col rv rs -> Forall UpdateFile1.retry_ok rs.
Proof.
  intros [Hok _]. eapply Forall_impl; [|exact Hok]. intros r Hr.
  unfold UpdateFile1.retry_ok.
  destruct r; cbn [record_retry]; try exact I; cbn [rec_ok] in Hr;
    destruct Hr as (_ & _ & Hr); destruct r as [rt|]; try exact I;
    cbn [FormatProofs.retry_ok] in Hr; lia.
Qed.

(* The same statement from the CONTENT of the file before the update: [s] is the text of the
   file (no line ending in a carriage return once split: known finding D16), [rs] its parse.
   No premise on retry clauses. *)
Theorem update_end_to_end_single_source :
  forall (col : N -> option N) (rv : str -> bool) (re : str -> str -> bool) (sep : str) (strict : bool)
         (substitute : bool -> list (str * str) -> str -> subres) (sc : script),
    col_stable col -> escape_valid rv -> escape_law re ->
    forall (file : str) (upper : option loc) (main : str) (s : str) (rs : list record)
           (st0 : rstate) (w0 : world) (written : list (str * list N)) (ev : list event),
      no_trailing_cr s ->
      parse col rv file upper s = POk rs ->
      strict = strict_cols (cfg st0) ->
      update_loop re sep strict substitute sc false rs [mkItem main []] false st0 w0 [] [] []
        = UOk written ev [] ->
      Forall2 (out_repr col sep strict) rs (updated_outputs re sep strict substitute sc rs st0 w0) ->
      Forall cmd_ok (updated_outputs re sep strict substitute sc rs st0 w0) ->
      dangling_end (updated_records re sep strict substitute sc rs st0 w0) = false ->
      exists text R,
        written = [(main, utf8 text)] /\
        parse col rv file upper text = POk R /\
        meaning R = meaning (map reread (updated_records re sep strict substitute sc rs st0 w0)) /\
        (exists st' w',
            run_multi re substitute sc st0 w0 R = (ev, st', w', FOk) /\
            exists e, run_multi_e re substitute sc st0 w0 R = (ev, st', w', e) /\ (e = Finished \/ e = Halted)) /\
        update_loop re sep strict substitute sc false R [mkItem main []] false st0 w0 [] [] []
          = UOk written ev [] /\
        (exists R2 outs2,
            upd re sep strict substitute sc R 1 false st0 w0 = Some (R2, ev, [], outs2) /\
            Forall cmd_ok outs2 /\
            Forall (fun r => display r <> None) R2 /\
            trim_tail (utf8 (recs_text R2)) = TOk (utf8 text)).
Proof.
  intros col rv re sep strict substitute sc Hcol Hrv Hesc file upper main s rs st0 w0 written ev
         Hcr Hparse Hs HU Hout Hc Hend.
  pose proof (parse_parsed_ok col rv file upper Hcol s rs Hcr Hparse) as Hp.
  exact (update_end_to_end_single col rv re sep strict substitute sc Hcol Hrv Hesc
           file upper main rs st0 w0 written ev Hs (parsed_ok_retry_ok col rv rs Hp) Hp HU Hout Hc Hend).
Qed.
Print Assumptions update_end_to_end_single_source.

(* ------------------------------------------------------------------ 5. include trees: what is proved, what is missing *)
(* For a record list WITH include markers (a main file and its includes, flattened), the
   record-level theorem and RunMeaning give: ANY record list with the meaning of the re-read
   updated list passes from the same state and world with the events of the update.  The
   premises are those of UpdateFile.update_file_converges only (no text layer).

   What is missing for "the tree left on disk passes": that re-expanding the written files
   (Include.parse_file on the new file system) yields a flat list [F2] with
   [meaning F2 = meaning (map reread rs')].  UpdateText7.parse_file_update_text_reparses_exact
   gives this file by file (each written file parses to records with the meaning of that file's
   re-read updated records); the composition over the tree is NOT proved here, and it is FALSE
   without a further premise: a file included twice is written twice and the second content
   replaces the first (UpdateEndToEndEx.IncludeTwice.include_twice_last_write_wins). *)
Theorem update_end_to_end_any_reading :
  forall (re : str -> str -> bool) (sep : str) (strict : bool)
         (substitute : bool -> list (str * str) -> str -> subres) (sc : script)
         (main : str) (rs : list record) (st0 : rstate) (w0 : world)
         (written : list (str * list N)) (ev : list event),
    escape_law re ->
    strict = strict_cols (cfg st0) ->
    Forall UpdateFile1.retry_ok rs ->
    update_loop re sep strict substitute sc false rs [mkItem main []] false st0 w0 [] [] []
      = UOk written ev [] ->
    Forall cmd_ok (updated_outputs re sep strict substitute sc rs st0 w0) ->
    forall F2 : list record,
      meaning F2 = meaning (map reread (updated_records re sep strict substitute sc rs st0 w0)) ->
      exists st' w' e,
        run_multi_e re substitute sc st0 w0 F2 = (ev, st', w', e) /\
        (e = Finished \/ e = Halted) /\
        run_multi re substitute sc st0 w0 F2 = (ev, st', w', FOk).
Proof.
  intros re sep strict substitute sc main rs st0 w0 written ev Hesc Hs Hrt HU Hc F2 Hm.
  destruct (update_file_converges re sep strict substitute sc main rs st0 w0 written ev
              Hesc Hs Hrt HU Hc) as [(st' & w' & e & HM & He & _) _].
  symmetry in Hm.
  destruct (run_multi_meaning re substitute sc _ _ Hm st0 w0 ev st' w' e HM) as (e' & HR & Hee).
  assert (e' = e).
  { destruct He as [-> | ->];
      [apply ending_eq_modloc_finished in Hee | apply ending_eq_modloc_halted in Hee]; exact Hee. }
  subst e'. exists st', w', e. split; [exact HR|]. split; [exact He|].
  unfold run_multi. rewrite HR. destruct He as [-> | ->]; reflexivity.
Qed.
Print Assumptions update_end_to_end_any_reading.
