(* MD5.v — RFC 1321 on N with explicit mod 2^32 arithmetic.  Modelled and
   validated (RFC test vectors below, hashlib and the md-5 crate through the
   correspondence check), not proved against a second formalisation. *)
From SLT Require Import Base Text.
Open Scope N_scope.

Definition M32 : N := 4294967296.
Definition w32 (x : N) : N := x mod M32.
Definition rotl32 (x s : N) : N := w32 (N.lor (N.shiftl x s) (N.shiftr x (32 - s))).
Definition not32 (x : N) : N := M32 - 1 - x.

(* (round group, message word index, shift, constant) for the 64 steps *)
Definition md5_table : list (N * N * N * N) :=
  [(0,0,7,3614090360); (0,1,12,3905402710); (0,2,17,606105819); (0,3,22,3250441966);
   (0,4,7,4118548399); (0,5,12,1200080426); (0,6,17,2821735955); (0,7,22,4249261313);
   (0,8,7,1770035416); (0,9,12,2336552879); (0,10,17,4294925233); (0,11,22,2304563134);
   (0,12,7,1804603682); (0,13,12,4254626195); (0,14,17,2792965006); (0,15,22,1236535329);
   (1,1,5,4129170786); (1,6,9,3225465664); (1,11,14,643717713); (1,0,20,3921069994);
   (1,5,5,3593408605); (1,10,9,38016083); (1,15,14,3634488961); (1,4,20,3889429448);
   (1,9,5,568446438); (1,14,9,3275163606); (1,3,14,4107603335); (1,8,20,1163531501);
   (1,13,5,2850285829); (1,2,9,4243563512); (1,7,14,1735328473); (1,12,20,2368359562);
   (2,5,4,4294588738); (2,8,11,2272392833); (2,11,16,1839030562); (2,14,23,4259657740);
   (2,1,4,2763975236); (2,4,11,1272893353); (2,7,16,4139469664); (2,10,23,3200236656);
   (2,13,4,681279174); (2,0,11,3936430074); (2,3,16,3572445317); (2,6,23,76029189);
   (2,9,4,3654602809); (2,12,11,3873151461); (2,15,16,530742520); (2,2,23,3299628645);
   (3,0,6,4096336452); (3,7,10,1126891415); (3,14,15,2878612391); (3,5,21,4237533241);
   (3,12,6,1700485571); (3,3,10,2399980690); (3,10,15,4293915773); (3,1,21,2240044497);
   (3,8,6,1873313359); (3,15,10,4264355552); (3,6,15,2734768916); (3,13,21,1309151649);
   (3,4,6,4149444226); (3,11,10,3174756917); (3,2,15,718787259); (3,9,21,3951481745)].

Definition md5_step (M : list N) (st : N * N * N * N) (e : N * N * N * N) : N * N * N * N :=
  let '(a, b, c, d) := st in
  let '(grp, g, s, k) := e in
  let f := if grp =? 0 then N.lor (N.land b c) (N.land (not32 b) d)
           else if grp =? 1 then N.lor (N.land d b) (N.land (not32 d) c)
           else if grp =? 2 then N.lxor b (N.lxor c d)
           else N.lxor c (N.lor b (not32 d)) in
  let f := w32 (f + a + k + nth (N.to_nat g) M 0) in
  (d, w32 (b + rotl32 f s), b, c).

Fixpoint le_word (bs : list N) : N :=
  match bs with [] => 0 | b :: r => b + 256 * le_word r end.

Fixpoint words (n : nat) (bs : list N) : list N :=
  match n with
  | O => []
  | S n' => le_word (firstn 4 bs) :: words n' (skipn 4 bs)
  end.

Definition md5_block (st : N * N * N * N) (block : list N) : N * N * N * N :=
  let M := words 16 block in
  let '(a, b, c, d) := st in
  let '(a', b', c', d') := fold_left (md5_step M) md5_table st in
  (w32 (a + a'), w32 (b + b'), w32 (c + c'), w32 (d + d')).

Fixpoint md5_blocks (fuel : nat) (st : N * N * N * N) (bs : list N) : N * N * N * N :=
  match fuel with
  | O => st
  | S f => match bs with
           | [] => st
           | _ => md5_blocks f (md5_block st (firstn 64 bs)) (skipn 64 bs)
           end
  end.

Fixpoint le_bytes (n : nat) (x : N) : list N :=
  match n with O => [] | S n' => x mod 256 :: le_bytes n' (x / 256) end.

Definition md5_pad (bs : list N) : list N :=
  let len := N.of_nat (length bs) in
  bs ++ [128] ++ repeat 0 (N.to_nat ((119 - len mod 64) mod 64))
     ++ le_bytes 8 ((8 * len) mod 18446744073709551616).

Definition md5 (bs : list N) : list N :=
  let p := md5_pad bs in
  let '(a, b, c, d) :=
    md5_blocks (S (length p / 64)) (1732584193, 4023233417, 2562383102, 271733878) p in
  le_bytes 4 a ++ le_bytes 4 b ++ le_bytes 4 c ++ le_bytes 4 d.

Definition hex_digit (x : N) : N := if x <? 10 then 48 + x else 87 + x.
Definition hex (bs : list N) : str := flat_map (fun b => [hex_digit (b / 16); hex_digit (b mod 16)]) bs.

Definition md5_hex (bs : list N) : str := hex (md5 bs).
