(* HashProofs.v — the digest line of large results (C15). *)
From Coq Require Import Sorting.Sorted Sorting.Permutation.
From SLT Require Import JudgeSpec JudgeProofs Runner.
Open Scope N_scope.

Definition arrangement (f q : option sortmode) (rows : list (list str)) : list (list str) :=
  fst (sort_phase (eff_sort q f) rows).

Definition value_count (f q : option sortmode) (types : str) (rows : list (list str)) : N :=
  nvalues (eff_sort q f) types (arrangement f q rows).

Lemma shape_hashed f thr q types rows :
  0 < thr -> thr < value_count f q types rows ->
  shape f thr q types rows =
    [[ dec (N.of_nat (length (arrangement f q rows)) * N.of_nat (length (hd [] (arrangement f q rows))))
       ++ lit " values hashing to "
       ++ hex (md5 (utf8 (concat (map (fun v => v ++ [10]) (values_of (arrangement f q rows)))))) ]].
Proof.
  intros H0 H1. destruct (shape_compared f thr q types rows) as [A _].
  unfold value_count, arrangement in *. now apply A.
Qed.

Lemma shape_not_hashed f thr q types rows :
  thr = 0 \/ value_count f q types rows <= thr ->
  shape f thr q types rows = arrangement f q rows.
Proof.
  intros H. destruct (shape_compared f thr q types rows) as [_ B].
  unfold value_count, arrangement in *. apply B. lia.
Qed.

(* the number written in the digest line is the number of values (rectangular answers) *)
Lemma sort_rows_length rows : length (sort_rows rows) = length rows.
Proof. apply Permutation_length, sort_rows_perm. Qed.

Lemma hd_in_or_nil {A} (l : list (list A)) : l = [] \/ In (hd [] l) l.
Proof. destruct l; cbn; auto. Qed.

Lemma length_concat_rect {A} (rows : list (list A)) (k : nat) :
  Forall (fun r => length r = k) rows -> length (concat rows) = (length rows * k)%nat.
Proof. induction 1 as [|r rows Hr _ IH]; cbn; [reflexivity|]. rewrite app_length, IH, Hr. lia. Qed.

Lemma digest_count f q types rows :
  Forall (fun r => length r = length types) rows ->
  let s := arrangement f q rows in
  (s <> [] -> N.of_nat (length s) * N.of_nat (length (hd [] s)) = value_count f q types rows) /\
  N.of_nat (length (values_of s)) = value_count f q types rows /\
  Permutation (values_of s) (values_of rows).
Proof.
  intros R. unfold value_count, arrangement, nvalues.
  destruct (eff_sort q f) as [[]|]; cbn [sort_phase fst].
  - (* nosort *)
    split; [|split; [|apply Permutation_refl]].
    + intros Hne. destruct rows as [|r rows]; [congruence|]. inversion R; subst. cbn [hd]. lia.
    + unfold values_of. rewrite (length_concat_rect rows (length types) R). lia.
  - (* rowsort *)
    assert (R' : Forall (fun r => length r = length types) (sort_rows rows)).
    { rewrite Forall_forall in *. intros r Hr. apply R. eapply Permutation_in; [apply sort_rows_perm|exact Hr]. }
    split; [|split; [|apply values_of_perm, sort_rows_perm]].
    + intros Hne. destruct (sort_rows rows) as [|r rs] eqn:E; [congruence|]. inversion R'; subst. cbn [hd]. lia.
    + unfold values_of. rewrite (length_concat_rect _ (length types) R'). lia.
  - (* valuesort *)
    set (single := map (fun v : str => [v]) (values_of rows)).
    assert (S1 : Forall (fun r : list str => length r = 1%nat) (sort_rows single)).
    { rewrite Forall_forall. intros r Hr.
      assert (Hin : In r single) by (eapply Permutation_in; [apply sort_rows_perm|exact Hr]).
      apply in_map_iff in Hin as (v & <- & _). reflexivity. }
    split; [|split].
    + intros Hne. destruct (sort_rows single) as [|r rs] eqn:E; [congruence|]. inversion S1; subst. cbn [hd].
      replace (length r) with 1%nat by auto. lia.
    + unfold values_of. rewrite (length_concat_rect _ 1 S1). lia.
    + eapply Permutation_trans; [apply values_of_perm, sort_rows_perm|]. unfold single.
      rewrite values_of_singles. apply Permutation_refl.
  - (* no mode *)
    split; [|split; [|apply Permutation_refl]].
    + intros Hne. destruct rows as [|r rows]; [congruence|]. inversion R; subst. cbn [hd]. lia.
    + unfold values_of. rewrite (length_concat_rect rows (length types) R). lia.
Qed.

(* hashing happens after sorting and before value-wise flattening: the judge flattens [shape]'s output *)
Lemma hashed_then_flattened f thr q types rows :
  0 < thr -> thr < value_count f q types rows ->
  valuewise (shape f thr q types rows) = shape f thr q types rows.
Proof. intros H0 H1. rewrite (shape_hashed _ _ _ _ _ H0 H1). reflexivity. Qed.

(* scope of the threshold: only hash-threshold records change it, for everything after *)
Section Scope.
  Variable substitute : bool -> list (str * str) -> str -> subres.
  Variable sc : script.

  Definition state_after (st : rstate) (w : world) (r : record) : rstate :=
    let '(_, st', _, _) := apply_record substitute sc st w r in st'.

  Lemma get_conn_cfg st w c :
    cfg (snd (fst (fst (get_conn sc st w c)))) = cfg st.
  Proof.
    unfold get_conn. destruct (find_conn c (conns st)); [reflexivity|].
    destruct (mem_N (makes w) (make_fail sc)); reflexivity.
  Qed.

  Lemma threshold_scope st w r :
    threshold (cfg (state_after st w r)) =
      match r with RHashThreshold _ n => n | _ => threshold (cfg st) end.
  Proof.
    unfold state_after, apply_record.
    destruct r; cbn; try reflexivity.
    - destruct (may_substitute substitute st true sql); [|reflexivity|reflexivity].
      pose proof (get_conn_cfg st w c) as G.
      destruct (get_conn sc st w c) as [[[ev st1] w1] [id|]]; cbn in G; [|now rewrite G].
      destruct (should_skip (labels st1) (engine sc) conds); [now rewrite G|].
      destruct (db_request sc w1 id). now rewrite G.
    - destruct (may_substitute substitute st true sql); [|reflexivity|reflexivity].
      pose proof (get_conn_cfg st w c) as G.
      destruct (get_conn sc st w c) as [[[ev st1] w1] [id|]]; cbn in G; [|now rewrite G].
      destruct (should_skip (labels st1) (engine sc) conds); [now rewrite G|].
      destruct (db_request sc w1 id). now rewrite G.
    - destruct (should_skip (labels st) [] conds); [reflexivity|].
      destruct (may_substitute substitute st false cmd) as [cmd'| |]; [|reflexivity|reflexivity].
      destruct (is_background cmd'); [reflexivity|].
      destruct (sys_request sc w). reflexivity.
    - destruct c; reflexivity.
  Qed.
End Scope.
