(* Serial.v — model of the CLI's serial driver (sqllogictest-bin/src/main.rs run_serial, 527-582, with
   connect_and_run_test_file): the files are run one after the other, in order.  A file that starts with the token set is
   Skipped; one that is running when Ctrl-C arrives is Cancelled; otherwise it ends with its own outcome (Ok, or Err with or
   without "Connection refused" in the text).  After each result: junit case, failed_cases, cancel on fail-fast / refusal.
   The nondeterminism is when Ctrl-C arrives: before a file starts ([SCtrlC]) or while it runs ([SRun true]). *)
From SLT Require Export Base Cli.
Open Scope N_scope.

Inductive schoice := SRun (interrupted : bool) | SCtrlC.
Inductive sfile := FPass | FFails (refused : bool).       (* what a file does when it runs to its end *)
Definition own_result (f : sfile) : fresult := match f with FPass => ROk | FFails r => RErr r end.

Record sst := mkS {
  s_todo : list sfile;
  s_token : bool;
  s_ctrlc : bool;
  s_failed : nat;
  s_reported : list fresult       (* in file order *)
}.

Definition sst0 (files : list sfile) : sst := mkS files false false 0 [].

Definition sstep (ff : bool) (st : sst) (c : schoice) : sst :=
  match c with
  | SCtrlC => mkS (s_todo st) true true (s_failed st) (s_reported st)
  | SRun interrupted =>
      match s_todo st with
      | [] => st
      | own :: rest =>
          if s_token st then mkS rest true (s_ctrlc st) (s_failed st) (s_reported st ++ [RSkipped])
          else if interrupted then mkS rest true true (s_failed st) (s_reported st ++ [RCancelled])
          else match own with
               | FFails refused => mkS rest (ff || refused) (s_ctrlc st) (S (s_failed st)) (s_reported st ++ [RErr refused])
               | FPass => mkS rest false (s_ctrlc st) (s_failed st) (s_reported st ++ [ROk])
               end
      end
  end.

Definition srun (ff : bool) (st : sst) (sched : list schoice) : sst := fold_left (sstep ff) sched st.

Definition sexit (st : sst) : N :=
  match s_failed st with S _ => 1 | O => if s_token st then 1 else 0 end.

(* the schedule without any Ctrl-C that runs every file *)
Definition plain_schedule (files : list sfile) : list schoice := map (fun _ => SRun false) files.
