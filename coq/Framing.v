(* Framing.v — L2 model of the external-engine driver's reply framing (external.rs JsonDecoder
   + tokio_util FramedRead): replies are JSON values written back to back, possibly padded with
   JSON white space and cut into arbitrary chunks by the pipe.  The decoder re-runs a stream
   deserializer over the accumulated buffer: [frame_end] is the delimiter scanner giving the
   offset just past the first complete top-level object (bytes as N). *)
From SLT Require Export Base.
Open Scope N_scope.

Inductive sst := Ws | In (depth : nat) | Str (depth : nat) | Esc (depth : nat) | Done | Bad.

Definition is_jws (b : N) : bool := (b =? 32) || (b =? 9) || (b =? 10) || (b =? 13).

Definition sstep (s : sst) (b : N) : sst :=
  match s with
  | Ws => if is_jws b then Ws else if b =? 123 then In 1 else Bad
  | In d =>
      if b =? 34 then Str d
      else if (b =? 123) || (b =? 91) then In (S d)
      else if (b =? 125) || (b =? 93) then
        match d with 1%nat => Done | S d' => In d' | O => Bad end
      else In d
  | Str d => if b =? 34 then In d else if b =? 92 then Esc d else Str d
  | Esc d => Str d
  | Done => Done
  | Bad => Bad
  end.

(* offset just past the first complete value, None while incomplete *)
Fixpoint scan (s : sst) (n : nat) (bs : list N) : option nat :=
  match s with
  | Done => Some n
  | _ => match bs with [] => None | b :: r => scan (sstep s b) (S n) r end
  end.
Definition frame_end (bs : list N) : option nat := scan Ws 0 bs.

Inductive fres := Frame (f : list N) | Eof | ErrRemaining | Pending.

(* FramedRead::next: decode from the buffer; if incomplete read the next chunk; at end of
   stream: nothing buffered -> end (the pending call fails with UnexpectedEof), something
   buffered -> "bytes remaining on stream"; [eof] = does the stream end after the chunks
   (otherwise the call keeps waiting) *)
Fixpoint next (eof : bool) (buf : list N) (chunks : list (list N)) : fres * list N * list (list N) :=
  match frame_end buf with
  | Some n => (Frame (firstn n buf), skipn n buf, chunks)
  | None =>
      match chunks with
      | [] => ((if eof then match buf with [] => Eof | _ => ErrRemaining end else Pending), buf, [])
      | c :: cs => next eof (buf ++ c) cs
      end
  end.

Fixpoint nexts (eof : bool) (k : nat) (buf : list N) (chunks : list (list N)) : list fres :=
  match k with
  | O => []
  | S k' => let '(r, buf', cs') := next eof buf chunks in
            r :: match r with Frame _ => nexts eof k' buf' cs' | _ => [] end
  end.

(* ---- serde_json's string escaping, as used for the request {"sql":"..."} (code points) *)
Definition hex4 (c : N) : list N :=
  let h := fun x => if x <? 10 then 48 + x else 87 + x in
  [h (c / 4096 mod 16); h (c / 256 mod 16); h (c / 16 mod 16); h (c mod 16)].

Definition json_escape_char (c : N) : list N :=
  if c =? 34 then [92; 34]
  else if c =? 92 then [92; 92]
  else if c =? 8 then [92; 98]
  else if c =? 12 then [92; 102]
  else if c =? 10 then [92; 110]
  else if c =? 13 then [92; 114]
  else if c =? 9 then [92; 116]
  else if c <? 32 then [92; 117] ++ hex4 c
  else [c].

Definition json_escape (s : str) : str := flat_map json_escape_char s.

Definition request_text (sql : str) : str := lit "{""sql"":""" ++ json_escape sql ++ lit """}".

Definition unhex (c : N) : option N :=
  if (48 <=? c) && (c <=? 57) then Some (c - 48)
  else if (97 <=? c) && (c <=? 102) then Some (c - 87)
  else if (65 <=? c) && (c <=? 70) then Some (c - 55)
  else None.

(* reference unescaper for JSON string bodies (no surrogate pairs: escape never produces them) *)
Fixpoint json_unescape (fuel : nat) (s : str) : option str :=
  match fuel with
  | O => None
  | S f =>
      match s with
      | [] => Some []
      | 92 :: c :: r =>
          if c =? 117 then
            match r with
            | a :: b :: c2 :: d :: r' =>
                match unhex a, unhex b, unhex c2, unhex d, json_unescape f r' with
                | Some x, Some y, Some z, Some w, Some t => Some (x * 4096 + y * 256 + z * 16 + w :: t)
                | _, _, _, _, _ => None
                end
            | _ => None
            end
          else
            let one := if c =? 34 then Some 34 else if c =? 92 then Some 92 else if c =? 47 then Some 47
                       else if c =? 98 then Some 8 else if c =? 102 then Some 12 else if c =? 110 then Some 10
                       else if c =? 114 then Some 13 else if c =? 116 then Some 9 else None in
            match one, json_unescape f r with
            | Some x, Some t => Some (x :: t)
            | _, _ => None
            end
      | 92 :: [] => None
      | c :: r => if (c =? 34) || (c <? 32) then None
                  else match json_unescape f r with Some t => Some (c :: t) | None => None end
      end
  end.
