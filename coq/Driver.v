(* Driver.v — code-shaped model of the CLI's drivers (sqllogictest-bin/src/main.rs):
   run_parallel (382-523), connect_and_run_test_file (669-736) and, as the one-job instance,
   run_serial.  Where Par.v is an OBSERVER (it accepts or refuses a trace) and Cli.v starts
   from a given list of results, this file models the code that PRODUCES them: a small-step
   transition system whose nondeterminism (tokio's scheduler, the arrival of Ctrl-C, the order
   in which the sessions of a file are closed by join_all) is an explicit list of choices.

     driver:   CREATE DATABASE for every file (BTreeMap order), one step each            (416-422)
               stream phase, buffer_unordered(jobs): pull the next file while fewer than
               [jobs] futures are held (spawned and not yet yielded), yield finished ones (424-446)
               per yielded result: junit case, failed_cases / failed_db, cancel on
               fail-fast or "Connection refused"                                          (456-481)
               DROP DATABASE in the same order unless kept / skipped altogether after a
               refusal                                                                    (485-511)
               close the management connection, decide the exit status                    (514-522)
     task:     token already set -> wait for the write side of RUNNING_TESTS -> Skipped   (680-692)
               otherwise hold the read side; select!{biased; cancelled -> Cancelled;
               run_test_file -> Ok / Err}; then runner.shutdown_async() on every path     (695-735)

   A file's behaviour against its engine is a script of actions (open a session, send a
   statement that passes / fails, fail without reaching the engine).  What the engine side can
   observe is emitted as Par.pev events.  DriverProofs.v proves, for every configuration and
   every list of choices: the emitted trace is accepted by the observer automaton of Par.v, the
   results satisfy Cli.consistent, every file is reported exactly once, the exit decision is
   Cli.exit_status of the reported results, no reachable state is stuck and every run ends. *)
From SLT Require Export Base Par Cli.
Open Scope N_scope.

Inductive act :=
| AConnect (c : N)             (* first use of connection c: a session is opened *)
| ASql (c : N) (ok : bool)     (* a statement is sent on connection c; [ok = false]: its answer makes the record fail
                                  (the failure is a step of its own: a cancellation can strike between the two) *)
| AFail.                       (* the file fails without reaching the engine (parse error ...) *)

Record fcfg := mkF { f_db : str; f_script : list act; f_refused : bool }.
(* f_refused: the error of this file, if it fails, contains "Connection refused" *)

Record cfg := mkCfg { c_jobs : nat; c_keep : bool; c_ff : bool; c_files : list fcfg }.

Inductive tstate :=
| TIdle                                            (* still in the iterator *)
| TSpawned                                         (* spawned, has not looked at the token yet *)
| TWaitSkip                                        (* saw the token set, waits for RUNNING_TESTS.write() *)
| TRunning (rest : list act) (conns : list (N * N))  (* holds the read side; connection -> session id *)
| TClosing (r : fresult) (open : list N) (had : bool) (* shutdown_async; [had]: it opened a session *)
| TDone (r : fresult) (had : bool)                 (* finished, result not yet yielded by the stream *)
| TReported (had : bool).

Inductive dphase := DCreate (todo : list str) | DStream | DDrop (todo : list str) | DClose | DEnd.

Record dst := mkDst {
  d_phase : dphase;
  d_tasks : list (fcfg * tstate);
  d_token : bool;                        (* the CancellationToken *)
  d_ctrlc : bool;                        (* Ctrl-C was received *)
  d_failed_db : list str;
  d_refused : bool;                      (* connection_refused *)
  d_reported : list (str * fresult);     (* in the order the driver processed them *)
  d_next : N                             (* next session id *)
}.

Inductive choice :=
| CDriver                 (* the driver task advances *)
| CTask (i k : nat)       (* the task of file i advances; k picks the session closed next *)
| CReport (i : nat)       (* the stream yields the result of file i *)
| CCtrlC.

Definition dbs_of (cf : cfg) : list str := map f_db (c_files cf).

Definition dst0 (cf : cfg) : dst :=
  mkDst (DCreate (dbs_of cf)) (map (fun f => (f, TIdle)) (c_files cf)) false false [] false [] 0.

(* ---- helpers ---- *)
Fixpoint upd {A} (i : nat) (x : A) (l : list A) : list A :=
  match l, i with
  | [], _ => []
  | _ :: r, O => x :: r
  | y :: r, S j => y :: upd j x r
  end.

Definition active (t : tstate) : bool :=
  match t with TSpawned | TWaitSkip | TRunning _ _ | TClosing _ _ _ | TDone _ _ => true | _ => false end.
Definition reader (t : tstate) : bool :=
  match t with TRunning _ _ | TClosing _ _ _ => true | _ => false end.
Definition is_idle (t : tstate) : bool := match t with TIdle => true | _ => false end.
Definition is_reported (t : tstate) : bool := match t with TReported _ => true | _ => false end.

Definition n_active (l : list (fcfg * tstate)) : nat := length (filter (fun p => active (snd p)) l).
Definition no_readers (l : list (fcfg * tstate)) : bool := forallb (fun p => negb (reader (snd p))) l.

Fixpoint first_idle (l : list (fcfg * tstate)) : option nat :=
  match l with
  | [] => None
  | (_, t) :: r => if is_idle t then Some O else option_map S (first_idle r)
  end.

Fixpoint lookupN (c : N) (l : list (N * N)) : option N :=
  match l with [] => None | (c', s) :: r => if c =? c' then Some s else lookupN c r end.
Fixpoint removeN (x : N) (l : list N) : list N :=
  match l with [] => [] | y :: r => if x =? y then r else y :: removeN x r end.
Definition is_nil {A} (l : list A) : bool := match l with [] => true | _ => false end.

(* ---- one step of a per-file task (connect_and_run_test_file) ---- *)
Definition task_step (f : fcfg) (token noread : bool) (next : N) (k : nat) (t : tstate)
  : tstate * list pev * N :=
  let db := f_db f in
  match t with
  | TSpawned => if token then (TWaitSkip, [], next) else (TRunning (f_script f) [], [], next)
  | TWaitSkip => if noread then (TDone RSkipped false, [], next) else (t, [], next)
  | TRunning rest conns =>
      let had := negb (is_nil conns) in
      if token then (TClosing RCancelled (map snd conns) had, [], next) else
      match rest with
      | [] => (TClosing ROk (map snd conns) had, [], next)
      | AConnect c :: r => (TRunning r ((c, next) :: conns), [PConnect db next], next + 1)
      | ASql c ok :: r =>
          match lookupN c conns with
          | Some s => (TRunning (if ok then r else AFail :: r) conns, [PSql db s], next)
          | None => (TRunning r conns, [], next)
          end
      | AFail :: _ => (TClosing (RErr (f_refused f)) (map snd conns) had, [], next)
      end
  | TClosing r open had =>
      match open with
      | [] => (TDone r had, [], next)
      | s0 :: _ => let s := nth k open s0 in (TClosing r (removeN s open) had, [PClose db s], next)
      end
  | _ => (t, [], next)
  end.

Definition set_phase (st : dst) (p : dphase) : dst :=
  mkDst p (d_tasks st) (d_token st) (d_ctrlc st) (d_failed_db st) (d_refused st) (d_reported st) (d_next st).
Definition set_tasks (st : dst) (l : list (fcfg * tstate)) (next : N) : dst :=
  mkDst (d_phase st) l (d_token st) (d_ctrlc st) (d_failed_db st) (d_refused st) (d_reported st) next.

(* ---- the driver task (run_parallel) ---- *)
Definition driver_step (cf : cfg) (st : dst) : dst * list pev :=
  match d_phase st with
  | DCreate [] => (set_phase st DStream, [])
  | DCreate (db :: todo) => (set_phase st (DCreate todo), [PCreate db])
  | DStream =>
      match (if Nat.ltb (n_active (d_tasks st)) (c_jobs cf) then first_idle (d_tasks st) else None) with
      | Some i => match nth_error (d_tasks st) i with
                  | Some (f, _) => (set_tasks st (upd i (f, TSpawned) (d_tasks st)) (d_next st), [])
                  | None => (st, [])
                  end
      | None =>
          if forallb (fun p => is_reported (snd p)) (d_tasks st)
          then (set_phase st (if d_refused st then DClose else DDrop (dbs_of cf)), [])
          else (st, [])
      end
  | DDrop [] => (set_phase st DClose, [])
  | DDrop (db :: todo) =>
      if c_keep cf && mem db (d_failed_db st) then (set_phase st (DDrop todo), [])
      else (set_phase st (DDrop todo), [PDrop db])
  | DClose => (set_phase st DEnd, [PMgmtClose])
  | DEnd => (st, [])
  end.

(* the body of `while let Some(..) = stream.next().await` for one yielded result *)
Definition report_step (cf : cfg) (st : dst) (i : nat) : dst * list pev :=
  match d_phase st, nth_error (d_tasks st) i with
  | DStream, Some (f, TDone r had) =>
      let tasks' := upd i (f, TReported had) (d_tasks st) in
      let rep' := d_reported st ++ [(f_db f, r)] in
      match r with
      | RErr rf =>
          let refused' := d_refused st || rf in
          let cancel := c_ff cf || refused' in
          (mkDst DStream tasks' (d_token st || cancel) (d_ctrlc st) (f_db f :: d_failed_db st) refused' rep' (d_next st),
           if cancel then [PCancel] else [])
      | _ => (mkDst DStream tasks' (d_token st) (d_ctrlc st) (d_failed_db st) (d_refused st) rep' (d_next st), [])
      end
  | _, _ => (st, [])
  end.

Definition dstep (cf : cfg) (st : dst) (c : choice) : dst * list pev :=
  match c with
  | CDriver => driver_step cf st
  | CTask i k =>
      match d_phase st, nth_error (d_tasks st) i with
      | DStream, Some (f, t) =>
          let '(t', evs, next') := task_step f (d_token st) (no_readers (d_tasks st)) (d_next st) k t in
          (set_tasks st (upd i (f, t') (d_tasks st)) next', evs)
      | _, _ => (st, [])
      end
  | CReport i => report_step cf st i
  | CCtrlC =>
      match d_phase st with
      | DEnd => (st, [])
      | _ => (mkDst (d_phase st) (d_tasks st) true true (d_failed_db st) (d_refused st) (d_reported st) (d_next st), [PCancel])
      end
  end.

Fixpoint drun (cf : cfg) (st : dst) (sched : list choice) : dst * list pev :=
  match sched with
  | [] => (st, [])
  | c :: r => let '(st1, e1) := dstep cf st c in
              let '(st2, e2) := drun cf st1 r in (st2, e1 ++ e2)
  end.

(* what the run keeps instead of dropping *)
Definition kept_of (cf : cfg) (st : dst) : list str :=
  if d_refused st then dbs_of cf else if c_keep cf then d_failed_db st else [].

(* the final decision of run_parallel / run_serial *)
Definition exit_of (st : dst) : N :=
  match d_failed_db st with
  | _ :: _ => 1
  | [] => if d_token st then 1 else 0
  end.

(* ---- a fair scheduler used by the correspondence check: greedy like buffer_unordered
   (fill free slots first), then every task one step in turn, results yielded as they appear;
   [fuel] rounds.  [ctrlc_at]: the round before which Ctrl-C arrives (none if >= fuel). *)
Fixpoint round_tasks (cf : cfg) (st : dst) (n i : nat) : dst * list pev :=
  match n with
  | O => (st, [])
  | S n' =>
      let '(st1, e1) := dstep cf st (CTask i 0) in
      let '(st2, e2) := dstep cf st1 (CReport i) in
      let '(st3, e3) := round_tasks cf st2 n' (S i) in
      (st3, e1 ++ e2 ++ e3)
  end.

Fixpoint fill (cf : cfg) (st : dst) (n : nat) : dst * list pev :=
  match n with
  | O => (st, [])
  | S n' => let '(st1, e1) := dstep cf st CDriver in
            let '(st2, e2) := fill cf st1 n' in (st2, e1 ++ e2)
  end.

Fixpoint fair_run (cf : cfg) (st : dst) (fuel : nat) (ctrlc_at : nat) : dst * list pev :=
  match fuel with
  | O => (st, [])
  | S fuel' =>
      let '(st0, e0) := match ctrlc_at with O => dstep cf st CCtrlC | _ => (st, []) end in
      let '(st1, e1) := match d_phase st0 with
                        | DStream => fill cf st0 (S (c_jobs cf))
                        | _ => dstep cf st0 CDriver
                        end in
      let '(st2, e2) := round_tasks cf st1 (length (d_tasks st1)) O in
      let '(st3, e3) := fair_run cf st2 fuel' (match ctrlc_at with O => fuel | S m => m end) in
      (st3, e0 ++ e1 ++ e2 ++ e3)
  end.
