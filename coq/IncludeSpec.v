(* IncludeSpec.v — L1 for C14: the declarative splice of `include` records. *)
From SLT Require Export Include.
Open Scope N_scope.

Section Spec.
  Variable col_of_char : N -> option N.
  Variable re_valid : str -> bool.
  Variable fs : str -> option fentry.
  Variable glob : str -> globres.

  Definition is_include (r : record) : bool := match r with RInclude _ _ => true | _ => false end.

  (* wrap the expansion of one included file in its markers *)
  Definition bracket (f : str) (inner : list record) : list record :=
    RBeginInclude f :: inner ++ [REndInclude f].

  (* [expands l out]: [out] is the expansion of the file named by [l] (included from the
     chain of sites [upper l]);  [splice file rs out]: [out] is [rs] with every include of
     [file] expanded in place, the matching files in the order glob returns them, each
     bracketed by its markers, directly after the include record *)
  Inductive expands : loc -> list record -> Prop :=
  | ex_file file n upper script rs out :
      fs file = Some (FFile script) ->
      parse col_of_char re_valid file upper script = POk rs ->
      splice file rs out ->
      expands (Loc file n upper) out
  with splice : str -> list record -> list record -> Prop :=
  | sp_nil file : splice file [] []
  | sp_plain file r rest out :
      is_include r = false -> splice file rest out -> splice file (r :: rest) (r :: out)
  | sp_include file il fn files inners rest out :
      glob (join_path (dirname file) fn) = GOk files -> files <> [] ->
      expands_all il files inners ->
      splice file rest out ->
      splice file (RInclude il fn :: rest)
             (RInclude il fn :: concat (map (fun p => bracket (fst p) (snd p)) (combine files inners)) ++ out)
  with expands_all : loc -> list str -> list (list record) -> Prop :=
  | ea_nil il : expands_all il [] []
  | ea_cons il f fl inner inners :
      expands (Loc f 0 (Some il)) inner -> expands_all il fl inners ->
      expands_all il (f :: fl) (inner :: inners).

  (* markers are properly nested: a Dyck word over file names *)
  Fixpoint nested (stack : list str) (rs : list record) : bool :=
    match rs with
    | [] => match stack with [] => true | _ => false end
    | RBeginInclude f :: r => nested (f :: stack) r
    | REndInclude f :: r => match stack with
                            | g :: st => str_eqb f g && nested st r
                            | [] => false
                            end
    | _ :: r => nested stack r
    end.

  Definition record_loc_opt (r : record) : option loc :=
    match r with
    | RInclude l _ | RStatement l _ _ _ _ _ | RQuery l _ _ _ _ _ | RSystem l _ _ _ _
    | RSleep l _ | RSubtest l _ | RHalt l | RHashThreshold l _ => Some l
    | _ => None
    end.

  Fixpoint loc_eqb (a b : loc) : bool :=
    match a, b with
    | Loc f n u, Loc g m v =>
        str_eqb f g && (n =? m) &&
        match u, v with
        | None, None => true
        | Some x, Some y => loc_eqb x y
        | _, _ => false
        end
    end.

  Definition oloc_eqb (a b : option loc) : bool :=
    match a, b with
    | None, None => true
    | Some x, Some y => loc_eqb x y
    | _, _ => false
    end.

  (* provenance: walking the expansion with the stack of open includes, every located record
     reports the innermost open file and, as its chain, the include site that opened that file
     (whose own chain continues upwards); [cur] = (file, chain of the file being read),
     [last_inc] = the include record governing the markers that follow *)
  Fixpoint provenance (cur : str * option loc) (last_inc : option loc)
           (stack : list ((str * option loc) * option loc)) (rs : list record) : bool :=
    match rs with
    | [] => match stack with [] => true | _ => false end
    | RBeginInclude f :: r =>
        match last_inc with
        | Some il => provenance (f, Some il) None ((cur, last_inc) :: stack) r
        | None => false
        end
    | REndInclude _ :: r =>
        match stack with
        | (c, li) :: st => provenance c li st r
        | [] => false
        end
    | x :: r =>
        let ok := match record_loc_opt x with
                  | Some (Loc f _ up) => str_eqb f (fst cur) && oloc_eqb up (snd cur)
                  | None => true
                  end in
        ok && provenance cur (match x with RInclude l _ => Some l | _ => last_inc end) stack r
    end.
End Spec.
