(* UpdateFile.v — C06 at the level of a whole record list: after `--override` the file
   passes against the same database and is a fixed point.

   Layers: UpdateFile1.v ([upd]: the records the driver writes, the link with [update_loop],
   one record), UpdateFile2.v (the induction over the list), UpdateFile3.v (the bytes written
   per file are the text of these records), this file (the theorem, its corollaries, and the
   counterexamples for the premises that cannot be dropped).

   The text layer (display / parse round trip, C05) is not part of this statement: what is
   read back from the written file is [map reread rs'] (an expected stdout comes back trimmed). *)
From Coq Require Import String.
From SLT Require Import TextProofs JudgeSpec JudgeProofs Runner RetryProofs RunnerProofs
                        Update UpdateSpec UpdateProofs UpdateFile1 UpdateFile2 UpdateFile3.
Open Scope N_scope.

(* ------------------------------------------------------------------ plain corollaries of part 2 *)
(* what is read back is the same record by record: equal, or (an expected stdout that differs
   by surrounding blanks only) with equal written expectation *)
Lemma reread_eq_cases a b : reread a = reread b -> a = b \/ written_expectation_eq a b.
Proof.
  destruct a, b; cbn [reread]; intros H; try discriminate H; try (left; exact H).
  right. cbn [written_expectation_eq]. inversion H; reflexivity.
Qed.

Lemma map_reread_Forall2 l1 : forall l2,
  map reread l1 = map reread l2 -> Forall2 (fun a b => a = b \/ written_expectation_eq a b) l1 l2.
Proof.
  induction l1 as [|a l1 IH]; intros [|b l2] H; cbn [map] in H; try discriminate H; constructor.
  - apply reread_eq_cases. inversion H; reflexivity.
  - apply IH. inversion H; reflexivity.
Qed.

(* ------------------------------------------------------------------ the link with update_loop *)
(* when the driver ends in UOk, its events and known-finding flags are those of [upd], and the
   bytes it reports for every file are the trimmed text of the records [upd] returns for that
   file (UpdateFile3.v; the general form, from any stack, is [update_loop_upd] /
   [update_loop_files]) *)
Theorem update_loop_updated :
  forall re sep strict substitute sc main rs st w written ev kn,
    update_loop re sep strict substitute sc false rs [mkItem main []] false st w [] [] [] = UOk written ev kn ->
    updated_events re sep strict substitute sc rs st w = ev /\
    updated_known re sep strict substitute sc rs st w = kn /\
    exists files,
      split_files (updated_records re sep strict substitute sc rs st w) [(main, [])] [] = Some files /\
      Forall2 closed_as files written /\
      Forall (fun r => marker r = None -> display r <> None) (updated_records re sep strict substitute sc rs st w).
Proof.
  intros re sep strict substitute sc main rs st w written ev kn H.
  apply update_loop_written in H. destruct H as (rs' & outs & files & U & S & Cl & Dp).
  unfold updated_events, updated_known, updated_records. rewrite U.
  split; [reflexivity|]. split; [reflexivity|]. exists files. repeat split; assumption.
Qed.
Print Assumptions update_loop_updated.

(* ------------------------------------------------------------------ the theorem *)
(* Premises, and why each is there:
   - [escape_law re]: the regex oracle accepts a message against its own escaped text
     (regex::escape); premise of the record-level theorem [update_converges] (an inline
     `error <regex>` expectation regenerated from a message must match that message).
   - [strict = strict_cols (cfg st0)]: the column validator handed to the updater is the one
     the runner judges with.  [update_record] decides whether to keep the expected column types
     with [strict], the judge with [strict_cols cfg]; false otherwise:
     [strictness_mismatch_rerun_fails].  No record changes [strict_cols] ([apply_record_strict]).
   - [Forall retry_ok rs]: a retry clause allows at least one attempt.  The parser rejects
     `retry 0` (Parser.parse_retry), so this holds of every parsed list; on a hand-made record
     with 0 attempts the updater executes the record once while the runner does not execute it
     at all and reports a bug: [retry_zero_rerun_fails].
   - the update ends in [UOk] with no known-finding flag ([kn] = []): outside D5 / D12, as in
     the record-level theorem.
   - [Forall cmd_ok (updated_outputs ...)]: no system command failed during the update (exit
     status, spawn error, or a substitution error in the command text: all three give the
     output [OSystem _ true], which the updater leaves alone and the runner rejects).  This is
     the premise "commands succeed" of the record-level theorem, stated on the outputs of the
     update; [script_commands_cmd_ok] derives it from the scripted answers.
   Not premises: skipped records, records after a halt (in whichever file), control records,
   include markers, named connections, failing connects, sleep, substitution (errors and the
   panic D9 included) and retry clauses are all covered.  The initial world is arbitrary.

   Conclusion (b) is plain equality of the whole event lists (connects, requests, sleeps,
   panics): the updater has ONE halt flag, set at the first halt of the flattened list, exactly
   where the runner stops.  (With the earlier per-file flag the equality was false: see
   [halt_in_include_no_request_after_halt], the former counterexample.) *)
Theorem update_file_converges :
  forall (re : str -> str -> bool) (sep : str) (strict : bool)
         (substitute : bool -> list (str * str) -> str -> subres) (sc : script)
         (main : str) (rs : list record) (st0 : rstate) (w0 : world)
         (written : list (str * list N)) (ev : list event),
    escape_law re ->
    strict = strict_cols (cfg st0) ->
    Forall retry_ok rs ->
    update_loop re sep strict substitute sc false rs [mkItem main []] false st0 w0 [] [] []
      = UOk written ev [] ->
    Forall cmd_ok (updated_outputs re sep strict substitute sc rs st0 w0) ->
    let rs' := updated_records re sep strict substitute sc rs st0 w0 in
    (* (a) the rerun of the file as read back ends without a failure, and
       (b) its events are exactly those of the update, in the same order *)
    (exists st' w' e,
        run_multi_e re substitute sc st0 w0 (map reread rs') = (ev, st', w', e) /\
        (e = Finished \/ e = Halted) /\
        run_multi re substitute sc st0 w0 (map reread rs') = (ev, st', w', FOk)) /\
    (* (c) a second update, of the file as read back, from the same state and world: completes
       (as far as the record level goes), issues the same events, raises no known-finding flag,
       no command fails, and what it writes is read back as the same records *)
    (exists rs'' outs'',
        upd re sep strict substitute sc (map reread rs') 1 false st0 w0 = Some (rs'', ev, [], outs'') /\
        map reread rs'' = map reread rs' /\
        Forall2 (fun a b => a = b \/ written_expectation_eq a b) rs'' rs' /\
        Forall cmd_ok outs'').
Proof.
  intros re sep strict substitute sc main rs st0 w0 written ev Hesc Hs Hrt HU Hc rs'.
  apply update_loop_upd in HU. destruct HU as (rs1 & ev1 & kn1 & outs & U & E1 & E2).
  cbn [length app] in U, E1, E2. subst ev1. symmetry in E2. subst kn1.
  subst rs'. unfold updated_outputs in Hc. unfold updated_records. rewrite U in Hc |- *.
  split.
  - destruct (rerun_upd re sep strict substitute sc Hesc rs 1%nat st0 w0 rs1 ev outs Hs Hrt U Hc)
      as (st' & w' & e & M & He).
    exists st', w', e. split; [exact M|]. split; [exact He|].
    unfold run_multi. rewrite M. destruct He as [-> | ->]; reflexivity.
  - destruct (second_upd re sep strict substitute sc Hesc rs 1%nat false st0 w0 rs1 ev outs Hs U Hc)
      as (rs'' & outs'' & U2 & M2 & C2).
    exists rs'', outs''. split; [exact U2|]. split; [exact M2|].
    split; [apply map_reread_Forall2; exact M2|exact C2].
Qed.
Print Assumptions update_file_converges.

(* the same on the library entry point [update_records] (initial world [world0]) *)
Corollary update_records_converges :
  forall re sep strict substitute sc main rs st0 written ev,
    escape_law re ->
    strict = strict_cols (cfg st0) ->
    Forall retry_ok rs ->
    update_records re sep strict substitute sc false main rs st0 = UOk written ev [] ->
    Forall cmd_ok (updated_outputs re sep strict substitute sc rs st0 world0) ->
    let rs' := updated_records re sep strict substitute sc rs st0 world0 in
    (exists st' w', run_multi re substitute sc st0 world0 (map reread rs') = (ev, st', w', FOk)) /\
    (exists rs'' outs'',
        upd re sep strict substitute sc (map reread rs') 1 false st0 world0 = Some (rs'', ev, [], outs'') /\
        map reread rs'' = map reread rs').
Proof.
  intros re sep strict substitute sc main rs st0 written ev Hesc Hs Hrt HU Hc.
  destruct (update_file_converges re sep strict substitute sc main rs st0 world0 written ev
              Hesc Hs Hrt HU Hc) as [(st' & w' & e & _ & _ & M) (rs'' & outs'' & U2 & M2 & _)].
  cbv zeta. split.
  - exists st', w'. exact M.
  - exists rs'', outs''. split; assumption.
Qed.
Print Assumptions update_records_converges.

(* ------------------------------------------------------------------ the frame of the whole list (C07) *)
Lemma Forall2_same_length {A B} (R : A -> B -> Prop) l1 l2 : Forall2 R l1 l2 -> length l1 = length l2.
Proof. intros H. induction H as [|a b l1 l2 _ _ IH]; cbn [length]; [reflexivity|now rewrite IH]. Qed.

Lemma first_halt_split (d : record) rs : forall j,
  (j < length rs)%nat -> rkind_of (nth j rs d) = KHalt ->
  exists pre l post, rs = pre ++ RHalt l :: post /\
                     Forall (fun r => rkind_of r <> KHalt) pre /\ (length pre <= j)%nat.
Proof.
  induction rs as [|r rs IH]; intros j Hj Hk; cbn [length] in Hj; [lia|].
  destruct (rkind_of r) eqn:K.
  4: { destruct j as [|j]; cbn [nth] in Hk; [congruence|].
       destruct (IH j) as (pre & l & post & -> & Hp & Hl); [lia|exact Hk|].
       exists (r :: pre), l, post. split; [reflexivity|]. split; [constructor; [congruence|exact Hp]|cbn [length]; lia]. }
  3: { destruct r; try discriminate K. exists [], l, rs. split; [reflexivity|]. split; [constructor|cbn [length]; lia]. }
  all: destruct j as [|j]; cbn [nth] in Hk; [congruence|];
    destruct (IH j) as (pre & l & post & -> & Hp & Hl); [lia|exact Hk|];
    exists (r :: pre), l, post; (split; [reflexivity|]); (split; [constructor; [congruence|exact Hp]|cbn [length]; lia]).
Qed.

(* C07 at file level.  The written list has the length of the input list, with include markers
   and halts at the same positions (and unchanged); an ordinary record is written unchanged or
   with a different expectation only; and every record from the first `halt` of the input list
   on - in whichever file it is - is the input record at the same position.  No premise on
   known findings or commands. *)
Theorem update_after_halt_unchanged :
  forall re sep strict substitute sc main rs st w written ev kn,
    update_loop re sep strict substitute sc false rs [mkItem main []] false st w [] [] []
      = UOk written ev kn ->
    let rs' := updated_records re sep strict substitute sc rs st w in
    length rs' = length rs /\
    Forall2 (fun r r' => rkind_of r' = rkind_of r /\
                         (rkind_of r <> KOther -> r' = r) /\
                         (r' = r \/ same_but_expectation r r')) rs rs' /\
    (forall pre l post,
        rs = pre ++ RHalt l :: post -> Forall (fun r => rkind_of r <> KHalt) pre ->
        exists pre', rs' = pre' ++ RHalt l :: post /\ length pre' = length pre) /\
    (forall j i d,
        (j <= i)%nat -> (j < length rs)%nat -> rkind_of (nth j rs d) = KHalt ->
        nth i rs' d = nth i rs d).
Proof.
  intros re sep strict substitute sc main rs st w written ev kn HU rs'.
  apply update_loop_upd in HU. destruct HU as (rs1 & ev1 & kn1 & outs & U & _ & _).
  cbn [length] in U. subst rs'. unfold updated_records. rewrite U.
  pose proof (upd_frame re sep strict substitute sc rs _ _ _ _ _ _ _ _ U) as Hf.
  assert (Hsplit : forall pre l post,
             rs = pre ++ RHalt l :: post -> Forall (fun r => rkind_of r <> KHalt) pre ->
             exists pre', rs1 = pre' ++ RHalt l :: post /\ length pre' = length pre).
  { intros pre l post -> Hp. eapply upd_after_halt; eauto. }
  split; [symmetry; eapply Forall2_same_length; exact Hf|]. split; [exact Hf|]. split; [exact Hsplit|].
  intros j i d Hji Hj Hk.
  destruct (first_halt_split d rs j Hj Hk) as (pre & l & post & E & Hp & Hl).
  destruct (Hsplit pre l post E Hp) as (pre' & -> & L). subst rs.
  rewrite !app_nth2 by lia. now rewrite L.
Qed.
Print Assumptions update_after_halt_unchanged.

(* ------------------------------------------------------------------ the premise on commands, from the script *)
Definition sys_ok (a : sysout) : Prop := match a with SysExit true _ => True | _ => False end.

(* every scripted command answer is a zero exit status, and substitution never fails in a
   command text *)
Definition script_commands_ok (substitute : bool -> list (str * str) -> str -> subres) (sc : script) : Prop :=
  Forall sys_ok (sys_answers sc) /\ sys_ok (sys_default sc) /\
  forall vs s m, substitute false vs s <> SubErr m.

Lemma nth_Forall {A} (P : A -> Prop) l d n : Forall P l -> P d -> P (nth n l d).
Proof.
  intros Hl Hd. destruct (nth_in_or_default n l d) as [H|H]; [|rewrite H; exact Hd].
  rewrite Forall_forall in Hl. apply Hl. exact H.
Qed.

Lemma apply_record_cmd_ok substitute sc st w r ev st1 w1 o :
  script_commands_ok substitute sc ->
  apply_record substitute sc st w r = (ev, st1, w1, o) -> cmd_ok o.
Proof.
  intros (Ha & Hd & Hsub) H. destruct r; cbn [apply_record] in H;
    try (inversion H; subst; exact I).
  - destruct (may_substitute substitute st true sql); try (inversion H; subst; exact I).
    destruct (get_conn sc st w c) as [[[ev1 st2] w2] [id|]]; [|inversion H; subst; exact I].
    destruct (should_skip (labels st2) (engine sc) conds); [inversion H; subst; exact I|].
    destruct (db_request sc w2 id) as [d w3]. inversion H; subst. destruct d; exact I.
  - destruct (may_substitute substitute st true sql); try (inversion H; subst; exact I).
    destruct (get_conn sc st w c) as [[[ev1 st2] w2] [id|]]; [|inversion H; subst; exact I].
    destruct (should_skip (labels st2) (engine sc) conds); [inversion H; subst; exact I|].
    destruct (db_request sc w2 id) as [d w3]. inversion H; subst. destruct d; exact I.
  - destruct (should_skip (labels st) [] conds); [inversion H; subst; exact I|].
    unfold may_substitute in H. destruct (subst_on st).
    + destruct (substitute false (vars st) cmd) as [cmd'|m|] eqn:M;
        [|exfalso; eapply Hsub; eauto|inversion H; subst; exact I].
      destruct (is_background cmd'); [inversion H; subst; exact I|].
      unfold sys_request in H. inversion H; subst.
      pose proof (nth_Forall sys_ok (sys_answers sc) (sys_default sc) (N.to_nat (sys_calls w)) Ha Hd) as Hn.
      destruct (nth (N.to_nat (sys_calls w)) (sys_answers sc) (sys_default sc)) as [[|] out|];
        cbn [sys_ok] in Hn; try contradiction. exact I.
    + destruct (is_background cmd); [inversion H; subst; exact I|].
      unfold sys_request in H. inversion H; subst.
      pose proof (nth_Forall sys_ok (sys_answers sc) (sys_default sc) (N.to_nat (sys_calls w)) Ha Hd) as Hn.
      destruct (nth (N.to_nat (sys_calls w)) (sys_answers sc) (sys_default sc)) as [[|] out|];
        cbn [sys_ok] in Hn; try contradiction. exact I.
  - destruct c; inversion H; subst; exact I.
Qed.

Lemma upd_cmd_ok re sep strict substitute sc rs : forall depth halt st w rs' ev kn outs,
  script_commands_ok substitute sc ->
  upd re sep strict substitute sc rs depth halt st w = Some (rs', ev, kn, outs) -> Forall cmd_ok outs.
Proof.
  induction rs as [|r rest IH]; intros depth halt st w rs' ev kn outs Hsc H.
  - cbn [upd] in H. destruct depth; [discriminate|]. inversion H; subst. constructor.
  - destruct depth as [|below]; [discriminate H|]. cbn [upd] in H.
    assert (Hcopy : forall dp h,
               cons_res r [] [] ONothing (upd re sep strict substitute sc rest dp h st w) = Some (rs', ev, kn, outs) ->
               Forall cmd_ok outs).
    { intros dp h Hx. apply cons_res_some in Hx. destruct Hx as (rs2 & ev2 & kn2 & os & U & E).
      inversion E; subst. constructor; [exact I|]. eapply IH; eauto. }
    destruct (rkind_of r); try (eapply Hcopy; exact H).
    destruct halt; [eapply Hcopy; exact H|].
    destruct (apply_record substitute sc st w r) as [[[e1 st1] w1] o] eqn:A.
    apply cons_res_some in H. destruct H as (rs2 & ev2 & kn2 & os & U & E).
    inversion E; subst. constructor; [eapply apply_record_cmd_ok; eauto|]. eapply IH; eauto.
Qed.

Theorem script_commands_cmd_ok re sep strict substitute sc rs st w :
  script_commands_ok substitute sc ->
  Forall cmd_ok (updated_outputs re sep strict substitute sc rs st w).
Proof.
  intros Hsc. unfold updated_outputs.
  destruct (upd re sep strict substitute sc rs 1 false st w) as [[[[rs' ev] kn] outs]|] eqn:U;
    [|constructor].
  eapply upd_cmd_ok; eauto.
Qed.
Print Assumptions script_commands_cmd_ok.

(* ------------------------------------------------------------------ counterexamples *)
Module Cex.
  Definition re_any (_ _ : str) : bool := true.
  Lemma re_any_escape : escape_law re_any.
  Proof. intros s. reflexivity. Qed.

  Definition no_subst (_ : bool) (_ : list (str * str)) (s : str) : subres := SubOk s.
  Definition sc0 : script := mkScript [] (AOut (DComplete 0)) [] [] (SysExit true []) [].
  Definition st_lax : rstate := mkRState (mkConfig None None 0 false) false [] [] [].
  Definition at_line (n : N) : loc := Loc (lit "m.slt") n None.
  Definition stmt (n : N) (rt : option retry) : record :=
    RStatement (at_line n) [] CDefault (lit "x") SOk rt.

  (* regression (the former counterexample to (b), found with the per-file halt flag): a halt
     inside an included file.  The statement that follows the include is NOT executed any
     more: the update issues no event at all, writes the list unchanged, and the rerun - which
     stops at the halt - issues none either. *)
  Definition rs_halt : list record :=
    [RBeginInclude (lit "a.slt"); RHalt (Loc (lit "a.slt") 1 None); REndInclude (lit "a.slt"); stmt 2 None].

  Example halt_in_include_no_request_after_halt :
    exists written,
      update_loop re_any [9] false no_subst sc0 false rs_halt [mkItem (lit "m.slt") []] false st_lax world0 [] [] []
        = UOk written [] [] /\
      updated_records re_any [9] false no_subst sc0 rs_halt st_lax world0 = rs_halt /\
      run_multi_e re_any no_subst sc0 st_lax world0
        (map reread (updated_records re_any [9] false no_subst sc0 rs_halt st_lax world0))
        = ([], st_lax, world0, Halted).
  Proof.
    eexists. split; [vm_compute; reflexivity|]. split; vm_compute; reflexivity.
  Qed.

  (* without [retry_ok]: `retry 0` (not producible by the parser).  The updater executes the
     statement; the runner makes no attempt and ends in the "unreachable" bug verdict. *)
  Definition rs_retry0 : list record := [stmt 1 (Some (mkRetry 0 0))].

  Example retry_zero_rerun_fails :
    exists written,
      update_loop re_any [9] false no_subst sc0 false rs_retry0 [mkItem (lit "m.slt") []] false st_lax world0 [] [] []
        = UOk written [EConnect 0; ESql 0 (lit "x")] [] /\
      Forall cmd_ok (updated_outputs re_any [9] false no_subst sc0 rs_retry0 st_lax world0) /\
      run_multi re_any no_subst sc0 st_lax world0
        (map reread (updated_records re_any [9] false no_subst sc0 rs_retry0 st_lax world0))
        = ([], st_lax, world0, FBug).
  Proof.
    eexists. split; [vm_compute; reflexivity|]. split; [vm_compute; repeat constructor|].
    vm_compute. reflexivity.
  Qed.

  (* without [strict = strict_cols (cfg st0)]: the updater is given the lax column validator,
     the runner judges with the strict one.  The query expects column type I, the database
     answers type T with the expected row: the updater keeps the record, the rerun fails. *)
  Definition st_strict : rstate := mkRState (mkConfig None None 0 true) false [] [] [].
  Definition sc_rows : script :=
    mkScript [AOut (DRows (lit "T") [[lit "1"]])] (AOut (DComplete 0)) [] [] (SysExit true []) [].
  Definition rs_cols : list record :=
    [RQuery (at_line 1) [] CDefault (lit "x") (QResults (lit "I") None None [lit "1"]) None].

  Example strictness_mismatch_rerun_fails :
    exists written ev st' w',
      update_loop re_any [9] false no_subst sc_rows false rs_cols [mkItem (lit "m.slt") []] false st_strict world0 [] [] []
        = UOk written ev [] /\
      Forall retry_ok rs_cols /\
      Forall cmd_ok (updated_outputs re_any [9] false no_subst sc_rows rs_cols st_strict world0) /\
      run_multi re_any no_subst sc_rows st_strict world0
        (map reread (updated_records re_any [9] false no_subst sc_rows rs_cols st_strict world0))
        = (ev, st', w', FErr KColumnsMismatch (at_line 1)).
  Proof.
    eexists _, _, _, _. split; [vm_compute; reflexivity|]. split; [repeat constructor|].
    split; [vm_compute; repeat constructor|]. vm_compute. reflexivity.
  Qed.
End Cex.
