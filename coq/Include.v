(* Include.v — L2 model of parse_file / parse_file_inner (parser.rs:963-1008): read the file,
   parse it, and splice every `include PATTERN` in place, recursively.  The file system is a
   finite table path -> entry, glob::glob is an oracle table pattern -> result. *)
From SLT Require Export Parser.
Open Scope N_scope.

Inductive fentry := FFile (content : str) | FDir | FBinary.   (* FBinary: not valid UTF-8 *)

Inductive globres := GOk (matches : list str) | GBadPattern | GUnreadable.

Inductive fpres :=
| FOkR (rs : list record)
| FErrR (k : N) (l : loc)       (* parse error kind code, location *)
| FPanicR
| FOutOfFuel.

Definition K_INVALID_INCLUDE : N := 13.
Definition K_EMPTY_INCLUDE : N := 14.
Definition K_FILE_NOT_FOUND : N := 15.

Section Include.
  Variable col_of_char : N -> option N.
  Variable re_valid : str -> bool.
  Variable fs : str -> option fentry.
  Variable glob : str -> globres.

  (* PathBuf: pop the last component of the including file, push the pattern *)
  Fixpoint drop_last_component_rev (r : str) : str :=
    match r with
    | [] => []
    | 47 :: r' => r'
    | _ :: r' => drop_last_component_rev r'
    end.
  Definition dirname (p : str) : str := frev (drop_last_component_rev (frev p)).
  Definition join_path (dir pattern : str) : str :=
    match pattern with
    | 47 :: _ => pattern                 (* absolute: push replaces *)
    | _ => match dir with
           | [] => pattern
           | _ => dir ++ [47] ++ pattern
           end
    end.

  Fixpoint expand (fuel : nat) (l : loc) : fpres :=
    match fuel with
    | O => FOutOfFuel
    | S fuel' =>
        let file := loc_file l in
        let upper := match l with Loc _ _ u => u end in
        match fs file with
        | None => FErrR K_FILE_NOT_FOUND l
        | Some FDir | Some FBinary => FErrR K_INVALID_INCLUDE l   (* read_to_string fails: located error *)
        | Some (FFile script) =>
            match parse col_of_char re_valid file upper script with
            | PPanic => FPanicR
            | PErr k n => FErrR (pkind_code k) (Loc file n upper)
            | POk rs =>
                (fix go (rs : list record) : fpres :=
                   match rs with
                   | [] => FOkR []
                   | r :: rest =>
                       let tail_with := fun (pre : list record) =>
                         match go rest with
                         | FOkR t => FOkR (pre ++ t)
                         | e => e
                         end in
                       match r with
                       | RInclude il filename =>
                           match glob (join_path (dirname file) filename) with
                           | GBadPattern | GUnreadable => FErrR K_INVALID_INCLUDE il
                           | GOk [] => FErrR K_EMPTY_INCLUDE il
                           | GOk files =>
                               let res :=
                                 (fix each (fl : list str) : fpres :=
                                    match fl with
                                    | [] => tail_with []
                                    | f :: fl' =>
                                        match expand fuel' (Loc f 0 (Some il)) with
                                        | FOkR inner =>
                                            match each fl' with
                                            | FOkR t => FOkR (RBeginInclude f :: inner ++ REndInclude f :: t)
                                            | e => e
                                            end
                                        | e => e
                                        end
                                    end) files in
                               match res with FOkR t => FOkR (r :: t) | e => e end
                           end
                       | _ => tail_with [r]
                       end
                   end) rs
            end
        end
    end.

  Definition parse_file (fuel : nat) (filename : str) : fpres := expand fuel (Loc filename 0 None).
End Include.
