(* SubstSpec.v — L1 for C13: abstract templates over the documented substitution syntax,
   their rendering and their documented expansion. *)
From SLT Require Export Subst.
Open Scope N_scope.

Inductive tmpl :=
| TNil
| TLit (s : str) (rest : tmpl)                       (* a run of ordinary characters *)
| TEsc (c : N) (rest : tmpl)                         (* \\  \$  \{  \}  \: *)
| TBare (name : str) (rest : tmpl)                   (* $NAME *)
| TBrace (name : str) (rest : tmpl)                  (* ${NAME} *)
| TDefault (name : str) (dflt : tmpl) (rest : tmpl). (* ${NAME:default}, defaults may nest *)

Fixpoint render_t (t : tmpl) : str :=
  match t with
  | TNil => []
  | TLit s r => s ++ render_t r
  | TEsc c r => 92 :: c :: render_t r
  | TBare n r => 36 :: n ++ render_t r
  | TBrace n r => 36 :: 123 :: n ++ 125 :: render_t r
  | TDefault n d r => 36 :: 123 :: n ++ 58 :: render_t d ++ 125 :: render_t r
  end.

Section Spec.
  Variable lookup : str -> option str.

  (* documented meaning: a set variable is replaced by its value verbatim (never re-expanded,
     never re-escaped), an unset one by the expansion of its default, and an unset variable
     without default makes the whole expansion fail, naming the variable *)
  Fixpoint expand_spec (t : tmpl) : str + str :=    (* inl = name of the undefined variable *)
    match t with
    | TNil => inr []
    | TLit s r => match expand_spec r with inr x => inr (s ++ x) | e => e end
    | TEsc c r => match expand_spec r with inr x => inr (c :: x) | e => e end
    | TBare n r | TBrace n r =>
        match lookup n with
        | Some v => match expand_spec r with inr x => inr (v ++ x) | e => e end
        | None => inl n
        end
    | TDefault n d r =>
        match lookup n with
        | Some v => match expand_spec r with inr x => inr (v ++ x) | e => e end
        | None => match expand_spec d with
                  | inr dv => match expand_spec r with inr x => inr (dv ++ x) | e => e end
                  | e => e
                  end
        end
    end.
End Spec.

Definition name_ok (n : str) : Prop := n <> [] /\ Forall (fun c => is_name_char c = true) n.

(* first character of the rendering of what follows (None at the end) *)
Definition next_char (t : tmpl) : option N := hd_error (render_t t).

(* well-formed templates.  [top] = not inside a default.  Literal runs are non-empty, contain
   neither `$` nor `\`, are maximal (not followed by another literal run) and, inside a default,
   contain no braces (a brace inside a default must be escaped); a bare name is not followed by
   a name character; a `$` never ends the text it is parsed in (known finding D9 otherwise) *)
Fixpoint wf_tmpl (top : bool) (t : tmpl) : Prop :=
  match t with
  | TNil => True
  | TLit s r =>
      s <> [] /\ Forall (fun c => is_special c = false) s /\
      (top = false -> Forall (fun c => c <> 123 /\ c <> 125) s) /\
      (match r with TLit _ _ => False | _ => True end) /\ wf_tmpl top r
  | TEsc c r => unescapable c = true /\ wf_tmpl top r
  | TBare n r =>
      name_ok n /\ (match next_char r with Some c => is_name_char c = false | None => True end) /\
      (match n with c :: _ => c <> 123 | [] => True end) /\ wf_tmpl top r
  | TBrace n r => name_ok n /\ wf_tmpl top r
  | TDefault n d r => name_ok n /\ wf_tmpl false d /\ wf_tmpl top r
  end.
