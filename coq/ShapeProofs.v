(* ShapeProofs.v — the sort of apply_record is determined by the multiset of rows
   (resp. values); consequences for shaping and verdicts (C10, used by C01/C15). *)
From Coq Require Import Sorting.Sorted Sorting.Permutation.
From SLT Require Import Judge.
Open Scope N_scope.

Lemma str_leb_antisym a b : str_leb a b = true -> str_leb b a = true -> a = b.
Proof.
  revert b; induction a as [|x a IH]; intros [|y b]; cbn; try discriminate; auto.
  destruct (N.ltb_spec x y), (N.ltb_spec y x), (N.eqb_spec x y), (N.eqb_spec y x);
    try discriminate; try lia.
  intros; subst; f_equal; auto.
Qed.

Lemma str_leb_trans a b c : str_leb a b = true -> str_leb b c = true -> str_leb a c = true.
Proof.
  revert b c; induction a as [|x a IH]; intros [|y b] [|z c]; cbn; try discriminate; auto.
  destruct (N.ltb_spec x y), (N.ltb_spec y z), (N.ltb_spec x z),
           (N.eqb_spec x y), (N.eqb_spec y z), (N.eqb_spec x z);
    try discriminate; try lia; eauto.
Qed.

Lemma str_leb_refl a : str_leb a a = true.
Proof. induction a as [|x a IH]; cbn; auto. rewrite N.ltb_irrefl, N.eqb_refl. exact IH. Qed.

Lemma row_leb_antisym a b : row_leb a b = true -> row_leb b a = true -> a = b.
Proof.
  revert b; induction a as [|x a IH]; intros [|y b]; cbn; try discriminate; auto.
  destruct (str_leb x y) eqn:E1, (str_leb y x) eqn:E2; try discriminate.
  intros. f_equal; auto using str_leb_antisym.
Qed.

Lemma row_leb_trans a b c : row_leb a b = true -> row_leb b c = true -> row_leb a c = true.
Proof.
  revert b c; induction a as [|x a IH]; intros [|y b] [|z c]; cbn; try discriminate; auto.
  destruct (str_leb x y) eqn:Exy, (str_leb y x) eqn:Eyx,
           (str_leb y z) eqn:Eyz, (str_leb z y) eqn:Ezy; try discriminate; intros.
  - rewrite (str_leb_trans _ _ _ Exy Eyz), (str_leb_trans _ _ _ Ezy Eyx). eauto.
  - rewrite (str_leb_trans _ _ _ Exy Eyz). destruct (str_leb z x) eqn:Ezx; auto.
    rewrite (str_leb_trans _ _ _ Ezx Exy) in Ezy. discriminate.
  - rewrite (str_leb_trans _ _ _ Exy Eyz). destruct (str_leb z x) eqn:Ezx; auto.
    rewrite (str_leb_trans _ _ _ Eyz Ezx) in Eyx. discriminate.
  - rewrite (str_leb_trans _ _ _ Exy Eyz). destruct (str_leb z x) eqn:Ezx; auto.
    rewrite (str_leb_trans _ _ _ Eyz Ezx) in Eyx. discriminate.
Qed.

Definition row_le (a b : list str) : Prop := row_leb a b = true.

Lemma sorted_perm_unique (l1 l2 : list (list str)) :
  StronglySorted row_le l1 -> StronglySorted row_le l2 -> Permutation l1 l2 -> l1 = l2.
Proof.
  revert l2. induction l1 as [|a l1 IH]; intros l2 S1 S2 P.
  - apply Permutation_nil in P. now subst.
  - destruct l2 as [|b l2]; [apply Permutation_sym, Permutation_nil in P; discriminate|].
    inversion S1 as [|? ? S1' F1]; inversion S2 as [|? ? S2' F2]; subst.
    assert (a = b).
    { assert (Ha : In a (b :: l2)) by (eapply Permutation_in; [exact P|left; reflexivity]).
      assert (Hb : In b (a :: l1)) by (eapply Permutation_in; [apply Permutation_sym; exact P|left; reflexivity]).
      destruct Ha as [->|Ha]; [reflexivity|]. destruct Hb as [->|Hb]; [reflexivity|].
      rewrite Forall_forall in F1, F2. apply row_leb_antisym; [apply F1|apply F2]; assumption. }
    subst b. f_equal. apply IH; auto. eapply Permutation_cons_inv; eauto.
Qed.

Lemma sort_rows_sorted rows : StronglySorted row_le (sort_rows rows).
Proof.
  apply Sorted_StronglySorted.
  - intros x y z; apply row_leb_trans.
  - apply RowSort.Sorted_sort.
Qed.

Lemma sort_rows_perm rows : Permutation (sort_rows rows) rows.
Proof. apply Permutation_sym, RowSort.Permuted_sort. Qed.

(* the sort is characterised declaratively: THE ascending permutation *)
Lemma sort_rows_spec rows s :
  Permutation s rows -> StronglySorted row_le s -> sort_rows rows = s.
Proof.
  intros P S. apply sorted_perm_unique; auto using sort_rows_sorted.
  eapply Permutation_trans; [apply sort_rows_perm|apply Permutation_sym; exact P].
Qed.

Lemma rowsort_perm rows rows' : Permutation rows rows' -> sort_rows rows = sort_rows rows'.
Proof.
  intros P. apply sort_rows_spec; auto using sort_rows_sorted.
  eapply Permutation_trans; [apply sort_rows_perm|apply Permutation_sym; exact P].
Qed.

Lemma values_of_perm rows rows' : Permutation rows rows' -> Permutation (values_of rows) (values_of rows').
Proof.
  unfold values_of. induction 1; cbn; auto.
  - apply Permutation_app_head; assumption.
  - rewrite !app_assoc. apply Permutation_app_tail, Permutation_app_comm.
  - eapply Permutation_trans; eauto.
Qed.

(* ---- shape is invariant under the reorderings the active mode ignores *)

Lemma shape_rowsort_perm f thr q types rows rows' :
  eff_sort q f = Some RowSort -> Permutation rows rows' ->
  shape f thr q types rows = shape f thr q types rows'.
Proof.
  intros E P. unfold shape. rewrite E. cbn [sort_phase]. now rewrite (rowsort_perm _ _ P).
Qed.

Lemma shape_valuesort_perm f thr q types rows rows' :
  eff_sort q f = Some ValueSort -> Permutation (values_of rows) (values_of rows') ->
  shape f thr q types rows = shape f thr q types rows'.
Proof.
  intros E P. unfold shape. rewrite E. cbn [sort_phase].
  rewrite (rowsort_perm (map (fun v => [v]) (values_of rows)) (map (fun v => [v]) (values_of rows'))); auto.
  now apply Permutation_map.
Qed.

(* without hashing, the shaped rows are THE ascending permutation of the rows / values *)
Lemma shape_rowsort_sorted f q types rows :
  eff_sort q f = Some RowSort ->
  let s := shape f 0 q types rows in Permutation s rows /\ StronglySorted row_le s.
Proof.
  intros E. unfold shape. rewrite E. cbn. split; [apply sort_rows_perm|apply sort_rows_sorted].
Qed.

Lemma shape_valuesort_sorted f q types rows :
  eff_sort q f = Some ValueSort ->
  let s := shape f 0 q types rows in
  Permutation (values_of s) (values_of rows) /\ StronglySorted row_le s /\ Forall (fun r => length r = 1%nat) s.
Proof.
  intros E. unfold shape. rewrite E. cbn.
  set (single := map (fun v : str => [v]) (values_of rows)).
  assert (Hs : Forall (fun r : list str => length r = 1%nat) single).
  { unfold single. apply Forall_forall. intros r Hr. apply in_map_iff in Hr as (v & <- & _). reflexivity. }
  assert (Hv : values_of single = values_of rows).
  { unfold single, values_of. induction (concat rows) as [|v l IH]; cbn; [reflexivity|]. now rewrite IH. }
  split; [|split].
  - rewrite <- Hv. apply values_of_perm, sort_rows_perm.
  - apply sort_rows_sorted.
  - rewrite Forall_forall in *. intros r Hr. apply Hs.
    eapply Permutation_in; [apply sort_rows_perm|exact Hr].
Qed.

Lemma shape_nosort f q types rows :
  eff_sort q f = None \/ eff_sort q f = Some NoSort -> shape f 0 q types rows = rows.
Proof. intros [E|E]; unfold shape; rewrite E; reflexivity. Qed.

Lemma eff_sort_query m f : eff_sort (Some m) f = Some m.
Proof. reflexivity. Qed.
Lemma eff_sort_file f : eff_sort None f = f.
Proof. reflexivity. Qed.

(* ---- verdict level *)
Section Verdict.
  Variable re : str -> str -> bool.

  Lemma verdict_rowsort_perm cfg l cs c sql e r t rows rows' :
    eff_sort (query_sort e) (file_sort cfg) = Some RowSort -> Permutation rows rows' ->
    run_record re cfg (RQuery l cs c sql e r) (ADb (DRows t rows)) =
    run_record re cfg (RQuery l cs c sql e r) (ADb (DRows t rows')).
  Proof.
    intros E P. unfold run_record, apply, apply_query.
    now rewrite (shape_rowsort_perm _ _ _ _ _ _ E P).
  Qed.

  Lemma verdict_valuesort_perm cfg l cs c sql e r t rows rows' :
    eff_sort (query_sort e) (file_sort cfg) = Some ValueSort ->
    Permutation (values_of rows) (values_of rows') ->
    run_record re cfg (RQuery l cs c sql e r) (ADb (DRows t rows)) =
    run_record re cfg (RQuery l cs c sql e r) (ADb (DRows t rows')).
  Proof.
    intros E P. unfold run_record, apply, apply_query.
    now rewrite (shape_valuesort_perm _ _ _ _ _ _ E P).
  Qed.

  (* nosort: row-wise comparison is strict about the order *)
  Definition norm_row (row : list str) : str := join [32] (map normalize row).

  Lemma validate_iff actual expected :
    validate actual expected = true <-> map norm_row actual = map normalize expected.
  Proof.
    unfold validate. fold norm_row.
    destruct (list_eqb_spec str_eqb str_eqb_spec (map norm_row actual) (map normalize expected)); split; congruence.
  Qed.

  Lemma verdict_nosort_strict cfg l cs c sql etypes qs lbl results r t rows :
    eff_sort qs (file_sort cfg) = None \/ eff_sort qs (file_sort cfg) = Some NoSort ->
    threshold cfg = 0 -> rmode cfg <> Some ValueWise ->
    col_validate (strict_cols cfg) t etypes = true ->
    (run_record re cfg (RQuery l cs c sql (QResults etypes qs lbl results) r) (ADb (DRows t rows)) = Pass
       <-> map norm_row rows = map normalize results) /\
    (map norm_row rows <> map normalize results ->
     run_record re cfg (RQuery l cs c sql (QResults etypes qs lbl results) r) (ADb (DRows t rows)) = Fail KResultMismatch).
  Proof.
    intros E T M C. unfold run_record, apply, apply_query. cbn [query_sort]. rewrite T.
    rewrite (shape_nosort _ _ _ _ E). cbn [judge]. rewrite C. cbn [negb].
    assert (Hact : match rmode cfg with Some ValueWise => valuewise rows | _ => rows end = rows).
    { destruct (rmode cfg) as [[]|]; congruence. }
    rewrite Hact.
    destruct (validate rows results) eqn:V.
    - apply validate_iff in V. split; [tauto|]. intros H; contradiction.
    - split.
      + split; [discriminate|]. intros H. apply validate_iff in H. congruence.
      + reflexivity.
  Qed.
End Verdict.
