(* Base.v — shared vocabulary of the development.
   Strings are lists of Unicode scalar values (code points) represented as N.
   [str] is a Notation, not a Definition, so that lia/rewrite see one type. *)
From Coq Require Export String Ascii.
From Coq Require Export NArith Bool Arith Lia List.
Export ListNotations.

Notation str := (list N).

(* linear-time reverse (List.rev is quadratic); equal to List.rev by [frev_rev] *)
Definition frev {A} (l : list A) : list A := rev_append l [].
Lemma frev_rev {A} (l : list A) : frev l = rev l.
Proof. unfold frev. symmetry. apply rev_alt. Qed.

(* Coq string literal -> code-point list (ASCII only; used for keywords). *)
Definition lit (x : string) : str :=
  map (fun a => N_of_ascii a) (list_ascii_of_string x).

(* Generic value trees: the wire format between the correspondence driver and
   the model's entry points (numbers, strings, lists). *)
Inductive val :=
| VN (n : N)
| VS (s : str)
| VL (l : list val).

Definition vbool (b : bool) : val := VN (if b then 1 else 0).
Definition vopt {A} (f : A -> val) (o : option A) : val :=
  match o with None => VL [] | Some a => VL [f a] end.
Definition vlist {A} (f : A -> val) (l : list A) : val := VL (map f l).
Definition vtag (t : string) (args : list val) : val := VL (VS (lit t) :: args).

Definition get_n (v : val) : N := match v with VN n => n | _ => 0 end.
Definition get_s (v : val) : str := match v with VS s => s | _ => [] end.
Definition get_l (v : val) : list val := match v with VL l => l | _ => [] end.
Definition get_b (v : val) : bool := negb (N.eqb (get_n v) 0).
Definition get_opt {A} (f : val -> A) (v : val) : option A :=
  match v with VL (x :: _) => Some (f x) | _ => None end.
Definition nthv (i : nat) (l : list val) : val := nth i l (VL []).

Fixpoint str_eqb (a b : str) : bool :=
  match a, b with
  | [], [] => true
  | x :: a', y :: b' => N.eqb x y && str_eqb a' b'
  | _, _ => false
  end.

Lemma str_eqb_spec a b : reflect (a = b) (str_eqb a b).
Proof.
  revert b; induction a as [|x a IH]; intros [|y b]; cbn; try (constructor; congruence).
  destruct (N.eqb_spec x y); cbn.
  - destruct (IH b); constructor; congruence.
  - constructor; congruence.
Qed.

Lemma str_eqb_refl a : str_eqb a a = true.
Proof. destruct (str_eqb_spec a a); congruence. Qed.

Lemma str_eqb_eq a b : str_eqb a b = true <-> a = b.
Proof. destruct (str_eqb_spec a b); split; congruence. Qed.

Fixpoint val_eqb (a b : val) : bool :=
  match a, b with
  | VN x, VN y => N.eqb x y
  | VS x, VS y => str_eqb x y
  | VL x, VL y =>
      (fix go (x y : list val) : bool :=
         match x, y with
         | [], [] => true
         | a :: x', b :: y' => val_eqb a b && go x' y'
         | _, _ => false
         end) x y
  | _, _ => false
  end.

Fixpoint list_eqb {A} (eqb : A -> A -> bool) (a b : list A) : bool :=
  match a, b with
  | [], [] => true
  | x :: a', y :: b' => eqb x y && list_eqb eqb a' b'
  | _, _ => false
  end.

Lemma list_eqb_spec {A} (eqb : A -> A -> bool) :
  (forall x y, reflect (x = y) (eqb x y)) ->
  forall a b, reflect (a = b) (list_eqb eqb a b).
Proof.
  intros H a; induction a as [|x a IH]; intros [|y b]; cbn; try (constructor; congruence).
  destruct (H x y); cbn.
  - destruct (IH b); constructor; congruence.
  - constructor; congruence.
Qed.
