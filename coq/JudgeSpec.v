(* JudgeSpec.v — L1: the documented rules for when a record's expectation is met by
   an answer, written declaratively (README "SLT test file format cookbook", rustdoc of
   ExpectedError / SortMode / ResultMode / HashThreshold), plus the documented reason
   reported on failure.  Tolerance rules of the implementation that are part of the
   specification (they are documented in the source and relied upon by users):
   T1  a `statement ok|count N` answered with rows passes (count compares the number of rows);
   T2  a `query` answered with a statement completion passes iff it expects no result line. *)
From Coq Require Import Sorting.Sorted Sorting.Permutation.
From SLT Require Export Judge ShapeProofs.
Open Scope N_scope.

Section Spec.
  Variable re_match : str -> str -> bool.

  Definition err_met (e : experr) (msg : str) : Prop :=
    match e with
    | EEmpty => True                          (* any error *)
    | EInline re => re_match re msg = true    (* regex search *)
    | EMulti t => trim t = trim msg           (* trimmed exact text *)
    end.

  (* the arrangement of the answer the expectation is compared with *)
  Inductive arranged (m : option sortmode) (rows s : list (list str)) : Prop :=
  | ArrAsIs : m = None \/ m = Some NoSort -> s = rows -> arranged m rows s
  | ArrRows : m = Some RowSort -> Permutation s rows -> StronglySorted row_le s -> arranged m rows s
  | ArrValues : m = Some ValueSort ->
                Permutation (values_of s) (values_of rows) ->
                Forall (fun r => length r = 1%nat) s ->
                StronglySorted row_le s -> arranged m rows s.

  Definition nvalues (m : option sortmode) (types : str) (s : list (list str)) : N :=
    match m with
    | Some ValueSort => N.of_nat (length s)
    | _ => N.of_nat (length s) * N.of_nat (length types)
    end.

  (* hash threshold: more than T values => the single digest line *)
  Definition compared (thr : N) (m : option sortmode) (types : str) (s c : list (list str)) : Prop :=
    (0 < thr /\ thr < nvalues m types s -> c = [[hash_line s]]) /\
    (~ (0 < thr /\ thr < nvalues m types s) -> c = s).

  Definition row_line (row : list str) : str := join [32] (map (normalize) row).

  Definition lines_match (rm : option resultmode) (c : list (list str)) (results : list str) : Prop :=
    match rm with
    | Some ValueWise => Forall2 (fun v e => normalize v = normalize e) (values_of c) results
    | _ => Forall2 (fun row e => row_line row = normalize e) c results
    end.

  Definition cols_ok (cfg : config) (actual expected : str) : Prop :=
    strict_cols cfg = true -> actual = expected.

  Definition expect_met (cfg : config) (r : record) (a : answer) : Prop :=
    match r, a with
    | RStatement _ _ _ _ e _, ADb d =>
        match e, d with
        | SError x, DErr m => err_met x m
        | SError _, _ => False
        | _, DErr _ => False
        | SOk, _ => True
        | SCount k, DComplete n => k = n
        | SCount k, DRows _ rows => k = N.of_nat (length rows)         (* T1 *)
        end
    | RQuery _ _ _ _ e _, ADb d =>
        match e, d with
        | QError x, DErr m => err_met x m
        | QError _, _ => False
        | QResults _ _ _ _, DErr _ => False
        | QResults _ _ _ results, DComplete _ => results = []          (* T2 *)
        | QResults etypes qs _ results, DRows types rows =>
            cols_ok cfg types etypes /\
            exists s c, arranged (eff_sort qs (file_sort cfg)) rows s /\
                        compared (threshold cfg) (eff_sort qs (file_sort cfg)) types s c /\
                        lines_match (rmode cfg) c results
        end
    | RSystem _ _ _ expected _, ASys s =>
        match s with
        | SysExit true out => match expected with None => True | Some ex => ex = trim out end
        | _ => False
        end
    | _, _ => True
    end.

  (* the documented reason, in the documented priority *)
  Definition reason (cfg : config) (r : record) (a : answer) : kind :=
    match r, a with
    | RStatement _ _ _ _ e _, ADb d =>
        match e, d with
        | SError _, DErr _ => KErrorMismatch
        | SError _, _ => KOk
        | _, DErr _ => KFail
        | _, _ => KCountMismatch
        end
    | RQuery _ _ _ _ e _, ADb d =>
        match e, d with
        | QError _, DErr _ => KErrorMismatch
        | QError _, _ => KOk
        | QResults _ _ _ _, DErr _ => KFail
        | QResults _ _ _ _, DComplete _ => KResultMismatch
        | QResults etypes _ _ _, DRows types _ =>
            if col_validate (strict_cols cfg) types etypes then KResultMismatch else KColumnsMismatch
        end
    | RSystem _ _ _ _ _, ASys s =>
        match s with SysExit true _ => KStdoutMismatch | _ => KSystemFail end
    | _, _ => KOk
    end.

  (* the record/answer pairs C01 talks about *)
  Definition judged (r : record) (a : answer) : Prop :=
    match r, a with
    | RStatement _ _ _ _ _ _, ADb _ | RQuery _ _ _ _ _ _, ADb _ | RSystem _ _ _ _ _, ASys _ => True
    | _, _ => False
    end.
End Spec.
