(* JudgeProofs.v — L2 (Judge.v, the code-shaped model) satisfies L1 (JudgeSpec.v). *)
From Coq Require Import Sorting.Sorted Sorting.Permutation.
From SLT Require Import JudgeSpec.
Open Scope N_scope.

Lemma map_eq_Forall2 {A B C} (f : A -> C) (g : B -> C) a b :
  map f a = map g b <-> Forall2 (fun x y => f x = g y) a b.
Proof.
  revert b; induction a as [|x a IH]; intros [|y b]; cbn; split; intros H;
    try discriminate; try constructor; try (inversion H; fail).
  - inversion H; auto.
  - inversion H; subst. apply IH; auto.
  - inversion H; subst. f_equal; auto. apply IH; auto.
Qed.

Lemma singles_values s : Forall (fun r : list str => length r = 1%nat) s ->
  s = map (fun v => [v]) (values_of s).
Proof.
  unfold values_of. induction 1 as [|r s Hr Hs IH]; cbn; [reflexivity|].
  destruct r as [|v [|w r]]; cbn in Hr; try discriminate. cbn. f_equal. exact IH.
Qed.

Lemma values_of_singles (l : list str) : values_of (map (fun v => [v]) l) = l.
Proof. unfold values_of. induction l as [|v l IH]; cbn; [reflexivity|]. now rewrite IH. Qed.

Section Proofs.
  Variable re : str -> str -> bool.

  Lemma err_match_iff e m : err_match re e m = true <-> err_met re e m.
  Proof.
    destruct e; cbn; try tauto.
    apply str_eqb_eq.
  Qed.

  (* the sort phase computes THE arrangement of the specification *)
  Lemma sort_phase_arranged m rows :
    arranged m rows (fst (sort_phase m rows)).
  Proof.
    destruct m as [[]|]; cbn.
    - apply ArrAsIs; auto.
    - apply ArrRows; auto using sort_rows_perm, sort_rows_sorted.
    - apply ArrValues; auto using sort_rows_sorted.
      + eapply Permutation_trans; [apply values_of_perm, sort_rows_perm|].
        rewrite values_of_singles. apply Permutation_refl.
      + rewrite Forall_forall. intros r Hr.
        assert (Hin : In r (map (fun v : str => [v]) (values_of rows)))
          by (eapply Permutation_in; [apply sort_rows_perm|exact Hr]).
        apply in_map_iff in Hin as (v & <- & _). reflexivity.
    - apply ArrAsIs; auto.
  Qed.

  Lemma arranged_unique m rows s : arranged m rows s -> s = fst (sort_phase m rows).
  Proof.
    intros [ [->| ->] -> | -> P S | -> P F S ]; cbn; try reflexivity.
    - symmetry. apply sort_rows_spec; assumption.
    - symmetry. apply sort_rows_spec; [|assumption].
      rewrite (singles_values s F) at 1. apply Permutation_map. exact P.
  Qed.

  Lemma sort_phase_flag m rows : snd (sort_phase m rows) = match m with Some ValueSort => true | _ => false end.
  Proof. destruct m as [[]|]; reflexivity. Qed.

  Lemma shape_compared f thr q types rows :
    let m := eff_sort q f in
    compared thr m types (fst (sort_phase m rows)) (shape f thr q types rows).
  Proof.
    cbn. unfold shape, compared, nvalues.
    pose proof (sort_phase_flag (eff_sort q f) rows) as Hf.
    destruct (sort_phase (eff_sort q f) rows) as [s vs]. cbn [fst snd] in *. subst vs.
    set (nv := if match eff_sort q f with Some ValueSort => true | _ => false end
               then N.of_nat (length s) else N.of_nat (length s) * N.of_nat (length types)).
    assert (Hnv : nv = match eff_sort q f with
                       | Some ValueSort => N.of_nat (length s)
                       | _ => N.of_nat (length s) * N.of_nat (length types) end).
    { unfold nv. destruct (eff_sort q f) as [[]|]; reflexivity. }
    rewrite <- Hnv. clearbody nv.
    destruct (N.ltb_spec 0 thr), (N.ltb_spec thr nv); cbn; split; intros; try reflexivity; try lia; tauto.
  Qed.

  Lemma compared_unique thr m types s c c' :
    compared thr m types s c -> compared thr m types s c' -> c = c'.
  Proof.
    intros [A B] [A' B'].
    destruct (N.ltb_spec 0 thr), (N.ltb_spec thr (nvalues m types s)).
    - rewrite A, A'; auto.
    - rewrite B, B'; auto; lia.
    - rewrite B, B'; auto; lia.
    - rewrite B, B'; auto; lia.
  Qed.

  Lemma validate_rowwise c results :
    validate c results = true <-> lines_match None c results.
  Proof.
    rewrite validate_iff. cbn. unfold norm_row, row_line. apply map_eq_Forall2.
  Qed.

  Lemma validate_valuewise c results :
    validate (valuewise c) results = true <-> lines_match (Some ValueWise) c results.
  Proof.
    rewrite validate_iff. cbn. unfold valuewise. rewrite map_map.
    assert (E : map (fun x : str => norm_row [x]) (values_of c) = map normalize (values_of c)).
    { apply map_ext. intros v. reflexivity. }
    rewrite E. apply map_eq_Forall2.
  Qed.

  Lemma validate_mode rm c results :
    validate (match rm with Some ValueWise => valuewise c | _ => c end) results = true
    <-> lines_match rm c results.
  Proof.
    destruct rm as [[]|]; [apply validate_rowwise|apply validate_valuewise|apply validate_rowwise].
  Qed.

  Lemma col_validate_iff cfg t et : col_validate (strict_cols cfg) t et = true <-> cols_ok cfg t et.
  Proof.
    unfold col_validate, cols_ok. destruct (strict_cols cfg).
    - rewrite str_eqb_eq. tauto.
    - split; auto. intros _ H; discriminate.
  Qed.

  Theorem judge_pass_iff cfg r a :
    judged r a -> (run_record re cfg r a = Pass <-> expect_met re cfg r a).
  Proof.
    destruct r; destruct a as [d|s]; cbn [judged]; try tauto; intros _.
    - (* statement *)
      unfold run_record, apply, apply_stmt.
      destruct d as [t rows|n|m]; destruct e as [|k|x]; cbn;
        try (split; [auto|congruence]); try (split; [discriminate|tauto]).
      + destruct (N.eqb_spec k (N.of_nat (length rows))); split; auto; try discriminate; tauto.
      + destruct (N.eqb_spec k n); split; auto; try discriminate; tauto.
      + destruct (err_match re x m) eqn:E.
        * apply err_match_iff in E. tauto.
        * split; [discriminate|]. intros H. apply err_match_iff in H. congruence.
    - (* query *)
      unfold run_record, apply, apply_query.
      destruct d as [t rows|n|m]; destruct e as [etypes qs lbl results|x]; cbn [judge expect_met query_sort].
      + (* rows vs results *)
        destruct (col_validate (strict_cols cfg) t etypes) eqn:C; cbn [negb].
        * pose proof (validate_mode (rmode cfg) (shape (file_sort cfg) (threshold cfg) qs t rows) results) as VM.
          destruct (validate _ results) eqn:V.
          -- split; [intros _|reflexivity]. split; [apply col_validate_iff; exact C|].
             exists (fst (sort_phase (eff_sort qs (file_sort cfg)) rows)),
                    (shape (file_sort cfg) (threshold cfg) qs t rows).
             split; [apply sort_phase_arranged|]. split; [apply shape_compared|apply VM; reflexivity].
          -- split; [discriminate|]. intros (_ & s0 & c0 & Ha & Hc & Hl).
             apply arranged_unique in Ha. subst s0.
             rewrite <- (compared_unique _ _ _ _ _ _ (shape_compared (file_sort cfg) (threshold cfg) qs t rows) Hc) in Hl.
             apply VM in Hl. congruence.
        * split; [discriminate|]. intros (Hc & _). apply col_validate_iff in Hc. congruence.
      + split; [discriminate|tauto].
      + destruct results; split; auto; try discriminate; congruence.
      + split; [discriminate|tauto].
      + split; [discriminate|tauto].
      + destruct (err_match re x m) eqn:E.
        * apply err_match_iff in E. tauto.
        * split; [discriminate|]. intros H. apply err_match_iff in H. congruence.
    - (* system *)
      unfold run_record, apply, apply_system.
      destruct s as [[] out|]; cbn; try (split; [discriminate|tauto]).
      destruct stdout as [ex|]; cbn; [|tauto].
      destruct (str_eqb_spec ex (trim out)); split; auto; try discriminate; tauto.
  Qed.

  Theorem judge_fail_reason cfg r a k :
    judged r a -> run_record re cfg r a = Fail k -> k = reason cfg r a.
  Proof.
    destruct r; destruct a as [d|s]; cbn [judged]; try tauto; intros _.
    - unfold run_record, apply, apply_stmt.
      destruct d as [t rows|n|m]; destruct e as [|kk|x]; cbn; try congruence.
      + destruct (kk =? N.of_nat (length rows)); congruence.
      + destruct (kk =? n); congruence.
      + destruct (err_match re x m); congruence.
    - unfold run_record, apply, apply_query.
      destruct d as [t rows|n|m]; destruct e as [etypes qs lbl results|x]; cbn [judge reason query_sort]; try congruence.
      + destruct (col_validate (strict_cols cfg) t etypes); cbn [negb]; [|congruence].
        destruct (validate _ results); congruence.
      + destruct results; congruence.
      + destruct (err_match re x m); congruence.
    - unfold run_record, apply, apply_system.
      destruct s as [[] out|]; cbn; try congruence.
      destruct stdout as [ex|]; cbn; try congruence.
      destruct (str_eqb ex (trim out)); congruence.
  Qed.

  Theorem judge_total cfg r a : judged r a -> run_record re cfg r a <> Unreachable.
  Proof.
    destruct r; destruct a as [d|s]; cbn [judged]; try tauto; intros _.
    - unfold run_record, apply, apply_stmt.
      destruct d as [t rows|n|m]; destruct e as [|kk|x]; cbn; try congruence.
      + destruct (kk =? N.of_nat (length rows)); congruence.
      + destruct (kk =? n); congruence.
      + destruct (err_match re x m); congruence.
    - unfold run_record, apply, apply_query.
      destruct d as [t rows|n|m]; destruct e as [etypes qs lbl results|x]; cbn [judge query_sort]; try congruence.
      + destruct (col_validate (strict_cols cfg) t etypes); cbn [negb]; [|congruence].
        destruct (validate _ results); congruence.
      + destruct results; congruence.
      + destruct (err_match re x m); congruence.
    - unfold run_record, apply, apply_system.
      destruct s as [[] out|]; cbn; try congruence.
      destruct stdout as [ex|]; cbn; try congruence.
      destruct (str_eqb ex (trim out)); congruence.
  Qed.

  (* the three statements of C01 in one: verdict = Pass iff met, otherwise the named reason *)
  Theorem judge_correct cfg r a :
    judged r a ->
    (expect_met re cfg r a -> run_record re cfg r a = Pass) /\
    (~ expect_met re cfg r a -> run_record re cfg r a = Fail (reason cfg r a)).
  Proof.
    intros J. pose proof (judge_pass_iff cfg r a J) as P.
    pose proof (judge_total cfg r a J) as T.
    split; [apply P|]. intros N.
    destruct (run_record re cfg r a) as [|k|] eqn:E; [tauto| |congruence].
    f_equal. eapply judge_fail_reason; eauto.
  Qed.
End Proofs.
