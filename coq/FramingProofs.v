(* FramingProofs.v — the k-th pull returns the k-th frame for ALL chunkings (C20). *)
From SLT Require Import Framing.
Open Scope N_scope.

Lemma scan_stable s n p k : scan s n p = Some k -> forall q, scan s n (p ++ q) = Some k.
Proof.
  revert s n. induction p as [|b p IH]; intros s n H q.
  - destruct s; cbn in H; try discriminate. inversion H; subst. destruct q; reflexivity.
  - destruct s; cbn in *; try (now apply IH); assumption.
Qed.

Lemma scan_bound s n p k : scan s n p = Some k -> (n <= k <= n + length p)%nat.
Proof.
  revert s n. induction p as [|b p IH]; intros s n H.
  - destruct s; cbn in H; try discriminate. inversion H; subst; cbn; lia.
  - destruct s; cbn [scan] in H; try (apply IH in H; cbn [length]; lia); inversion H; subst; cbn [length]; lia.
Qed.

(* a frame: the scan completes exactly at its end *)
Definition is_frame (f : list N) : Prop := frame_end f = Some (length f).

Lemma frame_prefix_none f p q : is_frame f -> f = p ++ q -> q <> [] -> frame_end p = None.
Proof.
  intros Hf -> Hq. unfold is_frame, frame_end in *. destruct (scan Ws 0 p) eqn:E; [|reflexivity].
  pose proof (scan_stable _ _ _ _ E q) as E2. rewrite E2 in Hf. inversion Hf; subst.
  apply scan_bound in E. rewrite app_length in E. destruct q; [congruence|]. cbn in E. lia.
Qed.

Lemma next_spec eof f : is_frame f -> forall chunks buf tail,
  buf ++ concat chunks = f ++ tail ->
  exists buf' cs', next eof buf chunks = (Frame f, buf', cs') /\ buf' ++ concat cs' = tail.
Proof.
  intros Hf. induction chunks as [|c cs IH]; intros buf tail Heq.
  - cbn [concat] in Heq. rewrite app_nil_r in Heq. subst buf. cbn [next].
    unfold is_frame in Hf. unfold frame_end in *. rewrite (scan_stable _ _ _ _ Hf tail).
    rewrite firstn_app, Nat.sub_diag, firstn_all, firstn_O, app_nil_r.
    rewrite skipn_app, Nat.sub_diag, skipn_all, skipn_O. cbn [app].
    exists tail, []. split; [reflexivity|]. cbn. now rewrite app_nil_r.
  - cbn [next]. destruct (frame_end buf) as [n|] eqn:E.
    + assert (Hn : n = length f).
      { unfold is_frame in Hf. pose proof (scan_stable _ _ _ _ E (concat (c :: cs))) as E1.
        rewrite Heq in E1. pose proof (scan_stable _ _ _ _ Hf tail) as E2. unfold frame_end in *. congruence. }
      subst n. pose proof (scan_bound _ _ _ _ E) as Hb. cbn in Hb.
      assert (Hpre : firstn (length f) buf = f /\ skipn (length f) buf ++ concat (c :: cs) = tail).
      { assert (H1 : firstn (length f) (buf ++ concat (c :: cs)) = f)
          by (rewrite Heq, firstn_app, Nat.sub_diag, firstn_all, firstn_O, app_nil_r; reflexivity).
        assert (H2 : skipn (length f) (buf ++ concat (c :: cs)) = tail)
          by (rewrite Heq, skipn_app, Nat.sub_diag, skipn_all, skipn_O; reflexivity).
        rewrite firstn_app in H1. rewrite skipn_app in H2.
        replace (length f - length buf)%nat with 0%nat in * by lia.
        rewrite firstn_O, app_nil_r in H1. rewrite skipn_O in H2. split; assumption. }
      destruct Hpre as [H1 H2]. rewrite H1. eexists _, _. split; [reflexivity|exact H2].
    + apply IH. cbn [concat] in Heq. now rewrite <- app_assoc.
Qed.

(* for all reply sequences and ALL ways of cutting their concatenation into chunks - any number,
   any sizes, cuts inside multi-byte characters and escapes included - the k pulls return the k frames *)
Theorem chunking eof fs : Forall is_frame fs -> forall chunks tail, concat chunks = concat fs ++ tail ->
  firstn (length fs) (nexts eof (length fs) [] chunks) = map Frame fs.
Proof.
  intros Hfs.
  assert (G : forall buf chunks tail, buf ++ concat chunks = concat fs ++ tail ->
              nexts eof (length fs) buf chunks = map Frame fs).
  { induction Hfs as [|f fs Hf Hfs IH]; intros buf chunks tail Heq; [reflexivity|].
    cbn [length nexts map concat] in *. rewrite <- app_assoc in Heq.
    destruct (next_spec eof f Hf chunks buf (concat fs ++ tail) Heq) as (b' & c' & Hn & Ht).
    rewrite Hn. f_equal. eapply IH. exact Ht. }
  intros chunks tail Heq. rewrite (G [] chunks tail Heq). now rewrite <- (map_length Frame fs), firstn_all.
Qed.

(* a stream that ends inside a frame: the pending call gets an error, never a frame and never waits *)
Lemma next_truncated p : frame_end p = None -> p <> [] ->
  forall chunks buf, buf ++ concat chunks = p ->
  exists b' c', next true buf chunks = (ErrRemaining, b', c').
Proof.
  intros Hp Hne. induction chunks as [|c cs IH]; intros buf Heq.
  - cbn [concat] in Heq. rewrite app_nil_r in Heq. subst buf. cbn [next]. rewrite Hp.
    destruct p; [congruence|]. eexists _, _. reflexivity.
  - cbn [next]. destruct (frame_end buf) as [n|] eqn:E.
    + exfalso. unfold frame_end in *. rewrite <- Heq in Hp. rewrite (scan_stable _ _ _ _ E) in Hp. discriminate.
    + apply IH. cbn [concat] in Heq. now rewrite <- app_assoc.
Qed.

Lemma next_clean_eof : forall chunks buf, buf ++ concat chunks = [] ->
  exists b' c', next true buf chunks = (Eof, b', c').
Proof.
  induction chunks as [|c cs IH]; intros buf Heq.
  - cbn in Heq. rewrite app_nil_r in Heq. subst. cbn. eexists _, _. reflexivity.
  - apply app_eq_nil in Heq as [-> Hc]. cbn [concat] in Hc. apply app_eq_nil in Hc as [-> Hcs].
    cbn [next frame_end scan]. cbn. apply (IH []). exact Hcs.
Qed.

Theorem truncated_stream fs p : Forall is_frame fs -> frame_end p = None ->
  forall chunks, concat chunks = concat fs ++ p ->
  nth (length fs) (nexts true (S (length fs)) [] chunks) Pending = match p with [] => Eof | _ => ErrRemaining end.
Proof.
  intros Hfs Hp.
  assert (G : forall buf chunks, buf ++ concat chunks = concat fs ++ p ->
              nth (length fs) (nexts true (S (length fs)) buf chunks) Pending = match p with [] => Eof | _ => ErrRemaining end).
  { induction Hfs as [|f fs Hf Hfs IH]; intros buf chunks Heq.
    - cbn [concat app length nth nexts] in *. destruct p as [|b p'].
      + destruct (next_clean_eof chunks buf Heq) as (b' & c' & ->). reflexivity.
      + destruct (next_truncated (b :: p') Hp ltac:(discriminate) chunks buf Heq) as (b' & c' & ->). reflexivity.
    - cbn [length concat] in *. rewrite <- app_assoc in Heq.
      destruct (next_spec true f Hf chunks buf (concat fs ++ p) Heq) as (b' & c' & Hn & Ht).
      cbn [nexts]. rewrite Hn. cbn [nth]. apply IH. exact Ht. }
  intros chunks Heq. apply G. exact Heq.
Qed.

(* stability: once a complete value is in the buffer, more data never changes where it ends *)
Theorem frame_end_stable p n : frame_end p = Some n -> (n <= length p)%nat /\ forall q, frame_end (p ++ q) = Some n.
Proof.
  intros H. split.
  - apply scan_bound in H. cbn in H. lia.
  - intros q. now apply scan_stable.
Qed.
