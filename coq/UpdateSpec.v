(* UpdateSpec.v — L1 for C06 / C07 at the level of one record: what --override may change
   (frame), when it must keep the expectation, and that the rewritten record is accepted by
   the judge on the same output and is a fixed point of the rewrite. *)
From SLT Require Export Update.
Open Scope N_scope.

(* everything but the expectation is preserved; the only change of kind is a query answered
   with a statement completion, which becomes `statement count N` *)
Definition same_but_expectation (r r' : record) : Prop :=
  match r, r' with
  | RStatement l cs c sql _ rt, RStatement l' cs' c' sql' _ rt' =>
      l = l' /\ cs = cs' /\ c = c' /\ sql = sql' /\ rt = rt'
  | RQuery l cs c sql e rt, RQuery l' cs' c' sql' e' rt' =>
      l = l' /\ cs = cs' /\ c = c' /\ sql = sql' /\ rt = rt' /\
      match e, e' with
      | QResults _ s lb _, QResults _ s' lb' _ => s = s' /\ lb = lb'
      | _, _ => True
      end
  | RQuery l cs c sql _ rt, RStatement l' cs' c' sql' (SCount _) rt' =>
      l = l' /\ cs = cs' /\ c = c' /\ sql = sql' /\ rt = rt'
  | RSystem l cs cmd _ rt, RSystem l' cs' cmd' _ rt' =>
      l = l' /\ cs = cs' /\ cmd = cmd' /\ rt = rt'
  | _, _ => False
  end.

(* the expectation as it is written to the file (Display trims an expected stdout) *)
Definition written_expectation_eq (r r' : record) : Prop :=
  match r, r' with
  | RStatement _ _ _ _ e _, RStatement _ _ _ _ e' _ => e = e'
  | RQuery _ _ _ _ e _, RQuery _ _ _ _ e' _ => e = e'
  | RSystem _ _ _ out _, RSystem _ _ _ out' _ => option_map trim out = option_map trim out'
  | _, _ => False
  end.

(* what the file holds after the record has been written and read again: an expected
   stdout comes back trimmed (C05 covers the rest of the formatting round trip) *)
Definition reread (r : record) : record :=
  match r with
  | RSystem l cs cmd out rt => RSystem l cs cmd (option_map trim out) rt
  | other => other
  end.

(* representable answers (the premise of C06): values single-line and not blank-only is implied
   by the validator round trip below; error texts are given as they are *)
Definition single_columns (rows : list (list str)) : Prop := Forall (fun row => length row = 1%nat) rows.
